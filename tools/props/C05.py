"""C05 - real rays converge to the paraxial prediction as aperture and field vanish."""
import math
from props.common import BASE_TRUSTED

PROP = 'C05'
KERNELS = ['translate', 'propagate_vac', 'align', 'refract', 'reflect', 'std_distance', 'std_normal',
           'plane_distance', 'std_sag', 'surf_trace_paraxial']
THEOREMS = ['C05_real_trace_converges', 'C05_real_trace_converges_kernel', 'C05_rstep_conv', 'C05_mstep_fin',
            'C05_step_ok_ev', 'C05_select_root', 'C05_aiming_limit', 'C05_fam_collimated', 'C05_mlaunch_fin',
            'C05_focus_converges', 'C05_Od_scaled', 'C05_std_distance_odd', 'C05_std_normal_odd',
            'C05_refract_odd', 'C05_reflect_odd', 'C05_par_trace_is_atrace', 'C05_singlet_converges']
COQ_TARGETS = ['Model/M_C05.vo', 'Model/Paraxial.vo']
TRUSTED_BASE = BASE_TRUSTED + [
    'hand model coq/Model/M_C05.v (plumbing of Surface._trace_real / SurfaceGroup.trace / RayGenerator launch in the '
    'meridional plane over the regenerated kernels): tied to the implementation by correspondence only',
    'specification coq/Spec/S_C05.v (E2/Od quadratic-convergence predicates) and coq/Spec/S_ABCD.v (paraxial matrices)',
    'well-formedness relation L_C05_Chain.wf_sys (which prescription the three views msurf/rsurf/asurf describe) is part '
    'of the statement; tools/props/C05.py builds msurf lists from the real Optic for the correspondence check',
    'implementation-level oracle tools/props/C05.py::convergence_oracle (NumPy, order fit on the real Optic)',
]
RULE = ('kernel cases: C02/C04 generators plus near-axis meridional inputs (x=L=0, |y|,|M| down to 1e-6). '
        'system: seeded axially symmetric lenses (1-12 planes/spheres/conics/even aspheres, mirrors, ideal and catalogue '
        'media, finite/infinite object, EPD/imageFNO/objectNA, angle/object_height fields, stop anywhere; per-field vignetting '
        'factors that differ between fields, field lists in non-ascending/shuffled order, edit histories after the keyword '
        'construction: ready-made Surface objects passed as new_surface= (incl. one carrying is_stop=True: stop moved), '
        'keyword insertion at an index, insert + remove_surface; exactly one stop asserted on the final prescription and the '
        'stop-centre clause judged at the stop the history asks for; the pupil scale of a bundle uses its own vignetting factor); '
        '(a) M_C05.mtrace/mlaunch (FOps) vs Optic.trace_generic on meridional rays at eps in {1,0.3,1e-2,1e-4}; '
        'round 5 classes: the Optic is reached by lensgen.build_via routes direct/handbuilt/reuse(reset)/roundtrip(to_dict/from_dict), explicit ImageSurface object, and '
        'the ray coordinates are written as float arrays / Python scalars with int 0 / integer zero arrays / float scalars; every expected '
        'paraxial value is computed from the generated prescription (spec_paraxial, matrix optics incl. entrance pupil, EPD, f2) and the '
        'library Paraxial values are compared with it (clause paraxial-vs-prescription), lensgen.prescription_problems checks the object; '
        '(b) the property itself: eps = 1e-1..1e-4 (7 values), marginal-type (Hy=0,Py=eps) and chief-type (Hy=eps,Py=0) rays, '
        'fitted order (asymptotic tail: the four smallest eps above the noise floor, else the whole range) of |real/scale - paraxial| >= 1.9 at every surface for height and tangent, axial focus -> paraxial, '
        'zero-pupil ray -> stop centre, Paraxial.trace(Hy,Py) vs the real ray. For angle fields the field scale factor is '
        'tan(eps*theta)/tan(theta) (the paraxial chief ray is linear in the tangent). non-trivial = distinct lens with a '
        'finite focal length whose eps=0.1 error is above the noise floor')
PARTIAL = [
    'real_trace_converges covers planes, spheres and conics with 1+k != 0 (refracting or reflecting); paraboloids (k=-1) '
    'and even aspheres are covered by the numerical order fit only',
    'well-formedness asks each vertex to lie strictly ahead of the previous one along the direction of travel and the '
    'launch family to have the Od/E2 form; aiming_limit proves that form for rays aimed from (eps*ya, z0) at (eps*yb, z1) '
    '(object-height fields, axial object points) and fam_collimated for axial bundles from infinity; angle fields '
    '(start height tan(eps*theta)*L) are covered numerically only',
    'oddness is proved per regenerated kernel (distance over extended reals, normal/refract/reflect over reals), not '
    'chained through the list: the quadratic rate through the whole system is proved directly instead',
    'the clause "zero-pupil ray -> stop centre" is the instance of real_trace_converges at the stop index plus the '
    'paraxial pupil imaging of C04; it is checked numerically here, not restated as a theorem',
]

EPS = [1e-1, 3e-2, 1e-2, 3e-3, 1e-3, 3e-4, 1e-4]
ORDER_MIN = 1.9
FLOOR = 2e-10


# ----------------------------------------------------------------------------------------------
# kernel correspondence
# ----------------------------------------------------------------------------------------------
def kernel_cases(ctx):
    from props import C02, C04
    want = set(KERNELS)
    for (k, cases, opts) in C02.kernel_cases(ctx):
        if k in want:
            yield k, cases, opts
    for (k, cases, opts) in C04.kernel_cases(ctx):
        if k in want:
            yield k, cases, opts
    g = ctx.gen
    n = ctx.n(200, 2000)
    tr, pv = [], []
    for i in range(n):
        tr.append([g.uni(-1, 1), g.uni(-1, 1), g.uni(-80, 80), g.uni(-9, 9), g.uni(-9, 9), g.uni(-90, 90)])
        d = g.unit3()
        pv.append([g.uni(0, 120), g.uni(-9, 9), d[0], g.uni(-9, 9), d[1], g.uni(-90, 90), d[2]])
    yield 'translate', tr, {}
    yield 'propagate_vac', pv, {}
    # the regime of C05: meridional, near the axis
    dist, nrm, rfr = [], [], []
    for i in range(n):
        e = 10 ** g.uni(-6, -1)
        R = g.uni(10, 200) * g.r.choice([-1, 1])
        k = g.r.choice([0.0, -1.0, g.uni(-3, 2)])
        u = e * g.uni(-1, 1)
        N = g.r.choice([1, 1, -1]) / math.sqrt(1 + u * u)
        M = u * abs(N)
        z = -g.uni(1, 60) * (1 if N > 0 else -1)
        y = e * g.uni(-5, 5)
        dist.append([k, N, 0.0, M, z, 0.0, y, R])
        nrm.append([0.0, y, R, k])
        ny = y / R
        m = math.sqrt(1 + ny * ny)
        rfr.append([0.0, ny / m, -1 / m, g.uni(1, 2), g.uni(1, 2), 0.0, M, N])
    yield 'std_distance', dist, {'scalars': ['self.k', 'self.radius']}
    yield 'std_normal', nrm, {'scalars': ['self.k', 'self.radius']}
    yield 'refract', rfr, {}
    yield 'reflect', [c[:3] + c[5:] for c in rfr], {}


# ----------------------------------------------------------------------------------------------
# lenses
# ----------------------------------------------------------------------------------------------
def _gen_specs(ctx, nl, salt, allow=('plane', 'standard', 'conic', 'even_asphere')):
    """random axially symmetric lenses.  Classes on top of lensgen.gen_spec: per-field vignetting factors that differ
    between the off-axis fields (the axial field stays unvignetted), field lists in non-ascending / shuffled order,
    and edit histories that finish the lens through other public paths (spec['edits'], see _plan_edits)"""
    import random
    import lensgen
    rng = random.Random(ctx.seed * 31 + salt)
    r2 = random.Random(ctx.seed * 131 + salt)      # separate stream: the lens population stays the one of round 1
    r3 = random.Random(ctx.seed * 977 + salt)      # round 5 stream (routes, argument forms)
    out = []
    for _ in range(nl):
        spec = lensgen.gen_spec(rng, allow=list(allow), decenter=False)
        for f in spec['fields']:
            f[2] = f[3] = 0.0
        for s in spec['surfaces']:
            s.pop('aperture', None)
            s.pop('coating', None)
        if all(f[0] == 0 for f in spec['fields']):
            spec['fields'] = [[0.0, 0.0, 0.0, 0.0], [rng.uniform(1.0, 8.0), 0.0, 0.0, 0.0]]
        if r2.random() < 0.5:
            for f in spec['fields']:
                if f[0] != 0:
                    f[2], f[3] = r2.uniform(0.0, 0.3), r2.uniform(0.05, 0.4)
        if r2.random() < 0.5:
            lensgen.reorder_fields(spec, r2)
        if r2.random() < 0.45:
            _plan_edits(spec, r2)
        # round 5: the route by which the Optic object is reached and the way the caller writes the ray coordinates
        spec['route'] = r3.choice(['direct', 'direct', 'handbuilt', 'reuse', 'reuse', 'roundtrip'])
        spec['route_seed'] = r3.randrange(10 ** 6)
        spec['arg_form'] = r3.choice(ARG_FORMS)
        if r3.random() < 0.15:
            spec['image_object'] = True
        out.append(spec)
    return out


def _gaps(spec):
    """air gaps of the prescription: (index i of the surface in front, z_i, thickness, surface i is a plane)"""
    z, medium, out = 0.0, 'air', []
    for i, s in enumerate(spec['surfaces'], start=1):
        m = s.get('material', 'air')
        if m != 'mirror':
            medium = 'air' if m == 'air' else 'glass'
        plane = s.get('type', 'standard') == 'standard' and math.isinf(s.get('radius', INF))
        if medium == 'air' and abs(s['thickness']) > 0.5:
            out.append((i, z, s['thickness'], plane))
        z += s['thickness']
    return out


def _plan_edits(spec, rng):
    """edit history applied after the keyword construction (all through Optic.add_surface / remove_surface):
    obj_dummy  ready-made Surface(Plane) passed as new_surface= at an index inside an air gap
    obj_stop   the same carrying is_stop=True: the stop MOVES to it
    kw_dummy / kw_stop  keyword-form insertion after construction (lands on the vertex plane of the surface in
               front, so only behind a plane surface)
    insert_remove  obj_dummy followed by remove_surface of it"""
    gaps = _gaps(spec)
    if not gaps:
        return
    kind = rng.choice(['obj_dummy', 'obj_stop', 'obj_stop', 'kw_dummy', 'kw_stop', 'insert_remove'])
    if kind.startswith('kw'):
        gaps = [g for g in gaps if g[3]]
        if not gaps:
            kind = 'obj_stop' if kind == 'kw_stop' else 'obj_dummy'
            gaps = _gaps(spec)
    i, z, t, _ = rng.choice(gaps)
    e = {'op': kind, 'index': i + 1}
    if not kind.startswith('kw'):
        e['z'] = z + rng.uniform(0.3, 0.7) * t
    spec['edits'] = [e]


def expected_stop(spec):
    """index (in the final surface list) of THE aperture stop the construction history asks for"""
    st = [bool(s.get('is_stop')) for s in spec['surfaces']].index(True) + 1
    for e in spec.get('edits', []):
        k = e['index']
        if e['op'] in ('obj_stop', 'kw_stop'):
            st = k
        elif e['op'] in ('obj_dummy', 'kw_dummy') and k <= st:
            st += 1
    return st


def build_lens(spec):
    """lensgen.build (keyword construction) followed by the edit history of the spec"""
    import lensgen
    from optiland.surfaces import Surface
    from optiland.geometries import Plane
    from optiland.coordinate_system import CoordinateSystem
    import random
    base = {k: v for k, v in spec.items() if k not in ('edits', 'route', 'route_seed', 'arg_form')}
    o = lensgen.build_via(base, spec.get('route', 'direct'), random.Random(spec.get('route_seed', 0)))
    for e in spec.get('edits', []):
        k = e['index']
        if e['op'] in ('obj_dummy', 'obj_stop', 'insert_remove'):
            m = o.surface_group.surfaces[k - 1].material_post
            o.add_surface(new_surface=Surface(Plane(CoordinateSystem(z=e['z'])), m, m, is_stop=(e['op'] == 'obj_stop')),
                          index=k)
            if e['op'] == 'insert_remove':
                o.surface_group.remove_surface(k)
        elif e['op'] in ('kw_dummy', 'kw_stop'):
            o.add_surface(index=k, is_stop=(e['op'] == 'kw_stop'), material='air', thickness=0.0)
    return o


def vig_factor(spec, Hy):
    """independent reading of FieldGroup.get_vig_factor for fields on the y axis: piecewise-linear in the normalised
    field height through the (height, factor) pairs of the field list, whatever order they were listed in"""
    pts = sorted((f[0], f[2], f[3]) for f in spec['fields'])
    mx = max(p[0] for p in pts)
    hs = [p[0] / mx if mx else 0.0 for p in pts]
    h = abs(Hy)

    def interp(vals):
        if h <= hs[0]:
            return vals[0]
        for a in range(len(hs) - 1):
            if hs[a] <= h <= hs[a + 1] and hs[a + 1] > hs[a]:
                return vals[a] + (vals[a + 1] - vals[a]) * (h - hs[a]) / (hs[a + 1] - hs[a])
        return vals[-1]
    return interp([p[1] for p in pts]), interp([p[2] for p in pts])


INF = float('inf')
# fixed lenses added to every sweep: reflecting systems are rare in the random generator
CORPUS = [
    # concave spherical mirror, object at infinity
    {'object_thickness': INF,
     'surfaces': [{'type': 'standard', 'radius': -200.0, 'thickness': -95.0, 'is_stop': True, 'material': 'mirror'}],
     'aperture': ['EPD', 20.0], 'field_type': 'angle', 'fields': [[0.0, 0.0, 0.0, 0.0], [2.0, 0.0, 0.0, 0.0]],
     'wavelengths': [[0.55, True]], 'telecentric': False},
    # singlet followed by a flat fold mirror
    {'object_thickness': INF,
     'surfaces': [{'type': 'standard', 'radius': 80.0, 'thickness': 6.0, 'is_stop': True, 'material': ['ideal', 1.6, 0.0]},
                  {'type': 'standard', 'radius': -120.0, 'thickness': 30.0, 'material': 'air'},
                  {'type': 'standard', 'radius': INF, 'thickness': -50.0, 'material': 'mirror'}],
     'aperture': ['EPD', 10.0], 'field_type': 'angle', 'fields': [[0.0, 0.0, 0.0, 0.0], [3.0, 0.0, 0.0, 0.0]],
     'wavelengths': [[0.55, True]], 'telecentric': False},
    # two-mirror (Cassegrain-like) system: concave conic primary, convex secondary
    {'object_thickness': INF,
     'surfaces': [{'type': 'standard', 'radius': -400.0, 'conic': -1.05, 'thickness': -140.0, 'is_stop': True,
                   'material': 'mirror'},
                  {'type': 'standard', 'radius': -150.0, 'conic': -2.2, 'thickness': 190.0, 'material': 'mirror'}],
     'aperture': ['EPD', 40.0], 'field_type': 'angle', 'fields': [[0.0, 0.0, 0.0, 0.0], [0.5, 0.0, 0.0, 0.0]],
     'wavelengths': [[0.55, True]], 'telecentric': False},
    # finite object, object-height field, flat mirror in front of a lens
    {'object_thickness': 150.0,
     'surfaces': [{'type': 'standard', 'radius': INF, 'thickness': -40.0, 'material': 'mirror'},
                  {'type': 'standard', 'radius': -70.0, 'thickness': -5.0, 'is_stop': True, 'material': ['ideal', 1.5, 0.0]},
                  {'type': 'standard', 'radius': 90.0, 'thickness': -120.0, 'material': 'air'}],
     'aperture': ['EPD', 8.0], 'field_type': 'object_height', 'fields': [[0.0, 0.0, 0.0, 0.0], [5.0, 0.0, 0.0, 0.0]],
     'wavelengths': [[0.55, True]], 'telecentric': False},
    # round 5: the same kinds of lens reached by other routes / written with other argument forms
    {'object_thickness': 123.4,
     'surfaces': [{'type': 'standard', 'radius': 45.0, 'thickness': 5.5, 'is_stop': False, 'material': ['ideal', 1.55, 0.0]},
                  {'type': 'standard', 'radius': -70.0, 'thickness': 4.25, 'material': 'air'},
                  {'type': 'standard', 'radius': INF, 'thickness': 66.6, 'is_stop': True, 'material': 'air'}],
     'aperture': ['EPD', 6.0], 'field_type': 'object_height', 'fields': [[0.0, 0.0, 0.0, 0.0], [4.3, 0.0, 0.0, 0.0]],
     'wavelengths': [[0.55, True]], 'telecentric': False, 'arg_form': 'py_int_zero'},
    {'object_thickness': 250.75,
     'surfaces': [{'type': 'standard', 'radius': 60.0, 'thickness': 4.0, 'is_stop': True, 'material': ['ideal', 1.6, 0.0]},
                  {'type': 'standard', 'radius': -85.0, 'thickness': 90.3, 'material': 'air'}],
     'aperture': ['objectNA', 0.02], 'field_type': 'angle', 'fields': [[0.0, 0.0, 0.0, 0.0], [2.5, 0.0, 0.0, 0.0]],
     'wavelengths': [[0.55, True]], 'telecentric': False, 'arg_form': 'np_int_zero'},
    {'object_thickness': INF,
     'surfaces': [{'type': 'standard', 'radius': 40.0, 'thickness': 5.0, 'is_stop': False, 'material': ['ideal', 1.52, 0.0]},
                  {'type': 'standard', 'radius': -60.0, 'thickness': 10.0, 'material': 'air'},
                  {'type': 'standard', 'radius': INF, 'thickness': 36.0, 'is_stop': True, 'material': 'air'}],
     'aperture': ['imageFNO', 6.0], 'field_type': 'angle', 'fields': [[0.0, 0.0, 0.0, 0.0], [6.0, 0.0, 0.0, 0.0]],
     'wavelengths': [[0.55, True]], 'telecentric': False, 'route': 'reuse', 'route_seed': 7},
    {'object_thickness': 180.5,
     'surfaces': [{'type': 'standard', 'radius': 55.0, 'thickness': 6.0, 'is_stop': True, 'material': ['ideal', 1.7, 0.0]},
                  {'type': 'standard', 'radius': -48.0, 'conic': -0.6, 'thickness': 75.0, 'material': 'air'}],
     'aperture': ['EPD', 7.0], 'field_type': 'object_height', 'fields': [[0.0, 0.0, 0.0, 0.0], [3.0, 0.0, 0.0, 0.0]],
     'wavelengths': [[0.55, True]], 'telecentric': False, 'route': 'roundtrip', 'arg_form': 'py_float_scalars'},
    {'object_thickness': INF,
     'surfaces': [{'type': 'standard', 'radius': 70.0, 'thickness': 4.0, 'is_stop': True, 'material': ['ideal', 1.5, 0.0]},
                  {'type': 'standard', 'radius': -110.0, 'thickness': 88.0, 'material': 'air'}],
     'aperture': ['EPD', 9.0], 'field_type': 'angle', 'fields': [[0.0, 0.0, 0.0, 0.0], [4.0, 0.0, 0.0, 0.0]],
     'wavelengths': [[0.55, True]], 'telecentric': False, 'route': 'handbuilt', 'route_seed': 3, 'image_object': True},
]


# ----------------------------------------------------------------------------------------------
# the paraxial prediction computed from the PRESCRIPTION that was generated (never read back from the lens object)
# ----------------------------------------------------------------------------------------------
def final_prescription(spec, w):
    """surface list of the final lens (after the edit history), from the spec alone"""
    import numpy as np
    out=[]; z=0.0; n=1.0
    for s in spec['surfaces']:
        m=s.get('material','air'); refl = (m=='mirror')
        if refl: n2=n
        elif m=='air': n2=1.0
        elif m[0]=='ideal': n2=float(m[1])
        else:
            from optiland.materials import Material
            n2=float(np.ravel((Material(m[1]) if len(m)==2 else Material(m[1],m[2])).n(w))[0])
        R=float(s.get('radius',INF)); c=0.0 if math.isinf(R) else 1.0/R
        c_r=c
        if s.get('type')=='even_asphere' and s.get('coefficients'): c=c+2*float(s['coefficients'][0])
        out.append(dict(z=z,c=c,c_radius_only=c_r,n1=n,n2=n2,refl=refl,stop=bool(s.get('is_stop'))))
        n=n2; z+=float(s['thickness'])
    zimg=z
    for e in spec.get('edits',[]):
        if e['op']=='insert_remove': continue
        k=e['index']          # index in the optic list (object = 0)
        prev=out[k-2]
        zz = e['z'] if 'z' in e else prev['z']
        st = e['op'].endswith('_stop')
        if st:
            for q in out: q['stop']=False
        out.insert(k-1, dict(z=zz,c=0.0,c_radius_only=0.0,n1=prev['n2'],n2=prev['n2'],refl=False,stop=st))
    # the image surface: entered without a medium it carries air behind it (keyword add_surface default), with an
    # image_material that one; an explicit ImageSurface object has the medium in front of it on both sides
    nlast = out[-1]['n2']
    if spec.get('image_object'):
        nimg = nlast
    elif spec.get('image_material'):
        nimg = float(spec['image_material'][1])
    else:
        nimg = 1.0
    out.append(dict(z=zimg,c=0.0,c_radius_only=0.0,n1=nlast,n2=nimg,refl=False,stop=False,image=True))
    return out
def _fwd(ss, y,u,z, key='c'):
    rec=[]
    for s in ss:
        y=y+u*(s['z']-z); z=s['z']
        if s['refl']: u=-u-2*s[key]*y
        else: u=(s['n1']*u - y*(s['n2']-s['n1'])*s[key])/s['n2']
        rec.append((y,u))
    return rec
def spec_paraxial(spec, w, key='c'):
    ss=final_prescription(spec,w)
    nm=sum(1 for s in ss if s['refl'])
    r=_fwd(ss,1.0,0.0,ss[0]['z']-1.0,key)
    f2=(-1.0/r[-1][1])*(-1)**nm if r[-1][1]!=0 else INF
    F2=-r[-1][0]/r[-1][1] if r[-1][1]!=0 else INF
    si=[i for i,s in enumerate(ss) if s['stop']][0]
    # entrance pupil: the stop centre seen from object space (reverse trace through the surfaces in front)
    if si==0: EPL=ss[0]['z']
    else:
        y,u,z=0.0,0.1,ss[si]['z']
        for s in reversed(ss[:si]):
            y=y+u*(s['z']-z); z=s['z']
            if s['refl']: u=-u-2*s[key]*y
            else: u=(s['n2']*u + y*(s['n2']-s['n1'])*s[key])/s['n1']
        EPL=z-y/u
    ap,val=spec['aperture']
    zobj=-float(spec['object_thickness'])
    if ap=='EPD': EPD=val
    elif ap=='imageFNO': EPD=abs(f2)/val
    else: EPD=2*(EPL-zobj)*math.tan(math.asin(val/1.0))
    if math.isinf(zobj): marg=_fwd(ss,EPD/2,0.0,ss[0]['z']-10.0,key)
    else: marg=_fwd(ss,0.0,EPD/(2*(EPL-zobj)),zobj,key)
    mf=max(f[0] for f in spec['fields'])
    if spec['field_type']=='angle':
        t=math.tan(math.radians(mf)); chief=_fwd(ss,t*(ss[0]['z']-EPL),t,ss[0]['z'],key)
    else:
        u=(0-mf)/(EPL-zobj); chief=_fwd(ss,mf+u*(ss[0]['z']-zobj),u,ss[0]['z'],key)
    return dict(ya=[r[0] for r in marg],ua=[r[1] for r in marg],yb=[r[0] for r in chief],ub=[r[1] for r in chief],EPL=EPL,EPD=EPD,f2=f2,F2=F2,stop=si+1)


def _count_classes(h, spec):
    """evidence histogram of the input classes a lens belongs to"""
    ys = [f[0] for f in spec['fields']]
    vig = any(f[2] or f[3] for f in spec['fields'])
    unsorted_ = ys != sorted(ys)
    for key, on in (('vignetted_off_axis_fields', vig), ('fields_not_ascending', unsorted_),
                    ('vignetted_and_not_ascending', vig and unsorted_)):
        h[key] = h.get(key, 0) + int(on)
    for e in spec.get('edits', []):
        h['edit:' + e['op']] = h.get('edit:' + e['op'], 0) + 1
    for key in ('route:' + spec.get('route', 'direct'), 'args:' + spec.get('arg_form', 'float_arrays')):
        h[key] = h.get(key, 0) + 1
    if spec.get('image_object'):
        h['image_surface_object'] = h.get('image_surface_object', 0) + 1
    if math.isfinite(spec['object_thickness']) and spec.get('arg_form') in ('py_int_zero', 'np_int_zero'):
        h['finite_object_with_integer_zero_args'] = h.get('finite_object_with_integer_zero_args', 0) + 1
    if spec.get('edits') and expected_stop(spec) != [bool(x.get('is_stop')) for x in spec['surfaces']].index(True) + 1:
        h['stop_moved_by_edit'] = h.get('stop_moved_by_edit', 0) + 1


ARG_FORMS = ['float_arrays', 'py_int_zero', 'np_int_zero', 'py_float_scalars']


def _real(o, Hy, Py, w, form='float_arrays'):
    """one meridional ray through Optic.trace_generic.  `form` = how the caller writes the four coordinates (all
    accepted by the API): float arrays; Python scalars with the literal int 0 for the unused x coordinates;
    integer NumPy arrays of zeros for them; Python float scalars"""
    import numpy as np
    if form == 'py_int_zero':
        o.trace_generic(0, float(Hy), 0, float(Py), w)
    elif form == 'np_int_zero':
        o.trace_generic(np.zeros(1, dtype=int), np.array([float(Hy)]), np.zeros(1, dtype=int), np.array([float(Py)]), w)
    elif form == 'py_float_scalars':
        o.trace_generic(0.0, float(Hy), 0.0, float(Py), w)
    else:
        o.trace_generic(np.array([0.0]), np.array([float(Hy)]), np.array([0.0]), np.array([float(Py)]), w)
    sg = o.surface_group
    return [np.array(a[:, 0], dtype=float) for a in (sg.y, sg.z, sg.M, sg.N, sg.x, sg.L)]


def _slope(es, errs):
    """least-squares slope of log err against log eps"""
    xs = [math.log(e) for e in es]
    ys = [math.log(v) for v in errs]
    n = len(xs)
    mx, my = sum(xs) / n, sum(ys) / n
    den = sum((x - mx) ** 2 for x in xs)
    return sum((x - mx) * (y - my) for x, y in zip(xs, ys)) / den if den > 0 else float('nan')


def _order_ok(es, errs, ref):
    """errs[i] = |scaled real - paraxial| at es[i]; converged quadratically?  returns (ok, order, detail)"""
    floor = FLOOR * (1 + abs(ref))
    pts = [(e, v) for e, v in zip(es, errs) if math.isfinite(v)]
    if len(pts) < 3:
        return True, None, 'too few finite points'
    small = [(e, v) for e, v in pts if e <= 1e-2]
    if not small:
        return True, None, 'no small eps'
    above = [(e, v) for e, v in pts if v > 5 * floor]      # points used for the fit: noise below 20 %
    if len(above) < 3:
        # (nearly) everything at the noise floor; two stray points must at least decrease with eps
        if len(above) == 2 and above[0][0] != above[1][0]:
            (e1, v1), (e2, v2) = sorted(above)
            if v1 > v2:
                return False, 0.0, f'error grows as eps shrinks ({v2:.3e} -> {v1:.3e})'
        return True, None, 'at noise floor'
    # the property is about eps -> 0: the order is fitted on the asymptotic tail (the four smallest eps whose
    # error is above the noise floor).  A nearly afocal lens (paraxial focus at 5e4) has a relative error of
    # order one at eps = 0.1, far outside the quadratic regime, and a fit over the whole range reads 1.896.
    above.sort()
    tail = above[:4]
    order = _slope([e for e, _ in tail], [v for _, v in tail])
    if order < ORDER_MIN and len(above) > 4:
        order = max(order, _slope([e for e, _ in above], [v for _, v in above]))
    det = '' if order >= ORDER_MIN else f'error {tail[0][1]:.3e} at eps={tail[0][0]:g}, fitted order {order:.2f}'
    return (order >= ORDER_MIN), order, det


def _rel(a, b):
    if math.isfinite(a) and math.isfinite(b):
        return abs(a - b) / (1 + abs(a) + abs(b))
    if (math.isinf(a) or abs(a) > 1e12) and (math.isinf(b) or abs(b) > 1e12):
        return 0.0          # afocal: the focal length is infinite, its sign is not defined
    return 0.0 if (math.isnan(a) and math.isnan(b)) else 1.0


def convergence_oracle(o, spec):
    """the property stated on the implementation.  Every expected value comes from the generated prescription
    (spec_paraxial) or from the real rays themselves.  Returns (violations, info)."""
    import numpy as np
    import lensgen
    w = [x[0] for x in spec['wavelengths'] if x[1]][0]
    form = spec.get('arg_form', 'float_arrays')
    P = o.paraxial
    ft = spec['field_type']
    mf = float(max(f[0] for f in spec['fields']))
    out = []
    info = {'nontrivial': False}
    pres = spec_paraxial(spec, w, 'c')
    pres0 = spec_paraxial(spec, w, 'c_radius_only')
    nS = len(pres['ya']) + 1
    if len(o.surface_group.surfaces) != nS:
        out.append({'clause': 'prescription', 'quantity': 'surface count', 'implementation': len(o.surface_group.surfaces),
                    'entered': nS})
        return out, info
    if not any(e['op'] != 'insert_remove' for e in spec.get('edits', [])):
        for b in lensgen.prescription_problems({k: v for k, v in spec.items() if k not in ('edits', 'route', 'route_seed', 'arg_form')}, o, w):
            out.append(dict(b, clause='prescription'))
    # the library's own paraxial quantities against the prescription
    try:
        impl = {'EPL': [float(P.EPL())], 'EPD': [float(P.EPD())], 'f2': [float(P.f2())],
                'ya': np.ravel(P.marginal_ray()[0]).astype(float)[1:], 'ua': np.ravel(P.marginal_ray()[1]).astype(float)[1:]}
        if mf != 0:
            cy, cu = P.chief_ray()
            impl['yb'], impl['ub'] = np.ravel(cy).astype(float)[1:], np.ravel(cu).astype(float)[1:]
    except Exception as ex:   # noqa
        impl = None
        out.append({'clause': 'paraxial-vs-prescription', 'quantity': 'raised ' + type(ex).__name__, 'matches_radius_only': False})
    if impl is not None:
        for q, got in impl.items():
            want = pres[q] if isinstance(pres[q], list) else [pres[q]]
            want0 = pres0[q] if isinstance(pres0[q], list) else [pres0[q]]
            if len(got) != len(want):
                out.append({'clause': 'paraxial-vs-prescription', 'quantity': q, 'detail': f'{len(got)} records for {len(want)} surfaces',
                            'matches_radius_only': False})
                continue
            bad = [k for k in range(len(want)) if _rel(float(got[k]), want[k]) > 1e-8]
            if bad:
                k = bad[0]
                out.append({'clause': 'paraxial-vs-prescription', 'quantity': q, 'surface': k + 1 if len(want) > 1 else None,
                            'implementation': float(got[k]), 'prescription': want[k],
                            'matches_radius_only': all(_rel(float(got[m]), want0[m]) <= 1e-8 for m in range(len(want)))})
    ya, ua = np.array([0.0] + pres['ya']), np.array([0.0] + pres['ua'])
    yb, ub = np.array([0.0] + pres['yb']), np.array([0.0] + pres['ub'])
    flagged = [k for k, sf in enumerate(o.surface_group.surfaces) if sf.is_stop]
    stop = expected_stop(spec)
    if flagged != [stop]:
        out.append({'clause': 'unique-stop', 'flagged_as_stop': flagged, 'expected': stop,
                    'detail': 'the final prescription must carry exactly one aperture stop, the one its construction asks for'})
    # pupil compression of the axial bundle by ITS OWN vignetting factor (trace_generic and generate_rays both apply it)
    pup0 = (1 - vig_factor(spec, 0.0)[1]) ** 2
    kinds = [('marginal', ya, ua)]
    if mf != 0:
        kinds.append(('chief', yb, ub))
    for kind, py, pu in kinds:
        es, Y, U = [], [], []
        for e in EPS:
            if kind == 'marginal':
                r = _real(o, 0.0, e, w, form)
                sc = e * pup0
            else:
                r = _real(o, e, 0.0, w, form)
                sc = e if ft == 'object_height' else math.tan(math.radians(e * mf)) / math.tan(math.radians(mf))
            y, z, M, N, x, L = r
            if len(y) != nS:
                continue
            if np.abs(x).max() > 0 or np.abs(L).max() > 0:
                out.append({'clause': kind + '-meridional', 'eps': e, 'detail': 'x or L nonzero on a meridional ray'})
            es.append(e)
            Y.append(y / sc)
            U.append((M / N) / sc)
        for k in range(1, nS):           # record 0 is the launch point, not a surface of the lens
            for nm, S, ref in (('y', Y, py), ('u', U, pu)):
                if k == nS - 1 and nm == 'u':
                    pass
                errs = [abs(float(s[k]) - float(ref[k])) for s in S]
                ok, order, det = _order_ok(es, errs, float(ref[k]))
                if order is not None and errs and errs[0] > FLOOR * (1 + abs(float(ref[k]))):
                    info['nontrivial'] = True
                if not ok:
                    sign = None
                    if abs(float(ref[k])) > 1e-9:
                        sign = float(S[-1][k]) / float(ref[k])
                    out.append({'clause': f'{kind}-{nm}', 'surface': k, 'order': order, 'detail': det,
                                'paraxial': float(ref[k]), 'real_scaled': [float(s[k]) for s in S][-3:],
                                'ratio_real_over_paraxial': sign, 'errors': errs})
        if kind == 'chief' and es:
            # zero-pupil ray -> centre of the aperture stop
            errs = [abs(float(s[stop])) for s in Y]
            ok, order, det = _order_ok(es, errs, 0.0)
            if not ok:
                out.append({'clause': 'chief-stop-centre', 'surface': stop, 'order': order, 'detail': det, 'errors': errs})
        if kind == 'marginal' and es and abs(float(pu[-1])) > 1e-9:
            # real axial focus -> paraxial focus (both measured from the last surface before the image)
            k = nS - 2
            ref = -float(py[k]) / float(pu[k])
            errs = [abs(-float(y[k]) / float(u[k]) - ref) if u[k] != 0 else float('nan') for y, u in zip(Y, U)]
            ok, order, det = _order_ok(es, errs, ref)
            if not ok:
                out.append({'clause': 'axial-focus', 'order': order, 'detail': det, 'paraxial_focus': ref, 'errors': errs})
    # Paraxial.F2(): back focal point, measured from the image surface; object at infinity: the real axial bundle
    # must cross the axis there in the limit
    if not math.isfinite(spec['object_thickness']):
        try:
            F2 = float(P.F2())
        except Exception:   # noqa
            F2 = float('nan')
        if math.isfinite(F2):
            es, errs = [], []
            for e in EPS:
                y, z, M, N, x, L = _real(o, 0.0, e, w, form)
                if len(y) == nS and math.isfinite(y[-1]) and M[-1] != 0:
                    es.append(e)
                    errs.append(abs(-y[-1] / (M[-1] / N[-1]) - F2))
            ok, order, det = _order_ok(es, errs, F2)
            if not ok:
                out.append({'clause': 'axial-focus-F2', 'order': order, 'detail': det, 'paraxial_F2': F2, 'errors': errs})
    # Paraxial.trace(Hy, Py) is the paraxial counterpart of trace_generic(Hy, Py)
    for (Hy, Py) in ((0.0, 1.0), (1.0, 0.0), (0.7, -0.6)):
        if Hy and mf == 0:
            continue
        es, E = [], []
        for e in (1e-2, 1e-3, 1e-4):
            try:
                P.trace(Hy * e, Py * e * (1 - vig_factor(spec, Hy * e)[1]) ** 2, w)
                yp = np.ravel(o.surface_group.y).astype(float)
                up = np.ravel(o.surface_group.u).astype(float)
                r = _real(o, Hy * e, Py * e, w, form)
            except Exception as ex:   # noqa
                out.append({'clause': 'paraxial-trace', 'detail': 'raised ' + type(ex).__name__})
                break
            if len(r[0]) != nS or len(yp) != nS:
                break
            es.append(e)
            E.append(max(np.abs(r[0][1:] - yp[1:]).max(), np.abs((r[2] / r[3])[1:] - up[1:]).max()) / e)
        if len(es) == 3 and math.isfinite(E[-1]):
            scale = 1 + float(np.abs(ya).max()) + float(np.abs(yb).max())
            if E[-1] > 1e-5 * scale:
                out.append({'clause': 'paraxial-trace', 'H_P': [Hy, Py], 'errors_over_eps': E,
                            'detail': 'Paraxial.trace(Hy*eps, Py*eps) is not the limit of the real ray'})
    info['f2'] = pres['f2']
    return out, info


# ----------------------------------------------------------------------------------------------
# model (FOps) against the implementation
# ----------------------------------------------------------------------------------------------
def _msurfs(o, w):
    """msurf list of the surfaces after the object, or None when outside the model's domain"""
    import numpy as np
    out = []
    for s in o.surface_group.surfaces[1:]:
        g = s.geometry
        nm = type(g).__name__
        cs = g.cs
        if any(float(v) != 0 for v in (cs.x, cs.y, cs.rx, cs.ry, cs.rz)):
            return None
        if nm == 'Plane':
            sh = ('plane',)
        elif nm == 'StandardGeometry':
            sh = ('std', float(g.radius), float(g.k))
        else:
            return None
        out.append({'z': float(cs.z), 'shape': sh, 'n1': float(np.ravel(s.material_pre.n(w))[0]),
                    'n2': float(np.ravel(s.material_post.n(w))[0]), 'refl': bool(s.is_reflective)})
    return out


def _coq_msurf(s, fh):
    sh = '(MPlane (O:=FOps))' if s['shape'][0] == 'plane' else f'(MStd (O:=FOps) {fh(s["shape"][1])} {fh(s["shape"][2])})'
    return f'(mkMS (O:=FOps) {fh(s["z"])} {sh} {fh(s["n1"])} {fh(s["n2"])} {"true" if s["refl"] else "false"})'


def _model_cases(ctx, nl):
    import warnings
    import numpy as np
    import lensgen
    warnings.simplefilter('ignore')
    cases = []
    hist = {'lenses': 0, 'outside_model_domain': 0, 'build_errors': 0, 'mirrors': 0, 'finite_object': 0,
            'nonfinite_rays': 0, 'rays': 0, 'classes': {}}
    for spec in _gen_specs(ctx, nl, 5, allow=('plane', 'standard', 'conic')):
        try:
            o = build_lens(spec)
            w = o.primary_wavelength
            ms = _msurfs(o, w)
            EPL, EPD = float(o.paraxial.EPL()), float(o.paraxial.EPD())
        except Exception:   # noqa
            hist['build_errors'] += 1
            continue
        if ms is None:
            hist['outside_model_domain'] += 1
            continue
        hist['lenses'] += 1
        _count_classes(hist['classes'], spec)
        hist['mirrors'] += int(any(s['refl'] for s in ms))
        hist['finite_object'] += int(math.isfinite(spec['object_thickness']))
        mf = float(o.fields.max_y_field)
        for (Hy, Py) in ((0.0, 1.0), (0.0, 0.3), (1.0, 0.0), (0.0, 1e-2), (1e-2, 0.0), (0.0, 1e-4), (1e-4, 1e-4), (0.6, -0.8)):
            if Hy and mf == 0:
                continue
            try:
                r = _real(o, Hy, Py, w)
            except Exception:   # noqa
                continue
            y, z, M, N, x, L = r
            hist['rays'] += 1
            if not all(np.all(np.isfinite(v)) for v in (y, z, M, N)):
                hist['nonfinite_rays'] += 1
                continue
            cases.append({'ms': ms, 'spec': spec, 'ray': [Hy, Py], 'launch': [y[0], z[0], M[0], N[0]],
                          'aim': [Py * (1 - vig_factor(spec, Hy)[1]) ** 2 * EPD / 2, EPL], 'expect': [v for k in range(1, len(y)) for v in (y[k], z[k], M[k], N[k])]})
    return cases, hist


def _run_model(cases, tol=1e-9, chunk=60):
    import vlib
    fh = vlib.fhex
    bodies, index = [], []
    for start in range(0, len(cases), chunk):
        defs, lines = [], []
        for ci in range(start, min(start + chunk, len(cases))):
            c = cases[ci]
            defs.append(f'Definition l{ci} := [' + ';\n  '.join(_coq_msurf(s, fh) for s in c['ms']) + '].')
            y0, z0, M0, N0 = c['launch']
            st = f'({fh(y0)}, {fh(z0)}, {fh(M0)}, {fh(N0)})'
            lines.append(f'match mtrace (O:=FOps) l{ci} {st} with None => false | Some l => '
                         f'close_list {fh(tol)} (flat_map (flat4 (O:=FOps)) l) {vlib.flist(c["expect"])} end')
            # the launch direction is the unit vector from the start point to the aim point in the entrance pupil
            y1, z1 = c['aim']
            lines.append(f'close_list {fh(tol)} (flat4 (O:=FOps) (mlaunch (O:=FOps) {fh(y0)} {fh(z0)} {fh(y1)} {fh(z1)})) '
                         f'{vlib.flist(c["launch"])}')
        bodies.append('\n'.join(defs) + '\nEval vm_compute in (report [\n' + ';\n'.join(lines) + '\n]).\n')
        index.append(start)
    res = vlib.run_cases('C05model', 'From OV Require Import Model.M_C05.', bodies)
    bad = []
    n = 0
    for start, r in zip(index, res):
        if r[0] == 'error':
            raise RuntimeError(r[1])
        n += r[0]
        for i in r[2]:
            bad.append((start + i // 2, 'trace' if i % 2 == 0 else 'launch'))
        if r[1] > len(r[2]):
            bad.append((-1, f'{r[1] - len(r[2])} more'))
    return bad, n


def _oracle_sweep(ctx, nl, salt):
    import warnings
    import lensgen
    warnings.simplefilter('ignore')
    hist = {'lenses': 0, 'build_errors': 0, 'oracle_errors': 0, 'finite_object': 0, 'object_height': 0, 'mirrors': 0,
            'even_asphere': 0, 'violating_lenses': 0, 'classes': {}}
    viol = []
    nontrivial = 0
    seen = set()
    for spec in CORPUS + _gen_specs(ctx, nl, salt):
        try:
            o = build_lens(spec)
        except Exception:   # noqa
            hist['build_errors'] += 1
            continue
        try:
            bad, info = convergence_oracle(o, spec)
        except Exception as e:   # noqa
            hist['oracle_errors'] += 1
            hist.setdefault('oracle_error_types', {}).setdefault(type(e).__name__, 0)
            hist['oracle_error_types'][type(e).__name__] += 1
            continue
        hist['lenses'] += 1
        _count_classes(hist['classes'], spec)
        hist['finite_object'] += int(math.isfinite(spec['object_thickness']))
        hist['object_height'] += int(spec['field_type'] == 'object_height')
        hist['mirrors'] += int(any(s.get('material') == 'mirror' for s in spec['surfaces']))
        hist['even_asphere'] += int(any(s.get('type') == 'even_asphere' for s in spec['surfaces']))
        key = repr(spec['surfaces'])
        if info.get('nontrivial') and info.get('f2') is not None and math.isfinite(info['f2']) and key not in seen:
            seen.add(key)
            nontrivial += 1
        if bad:
            hist['violating_lenses'] += 1
            viol.append({'spec': spec, 'oracle': bad[:10], 'clauses': sorted({b['clause'] for b in bad}),
                         'violates_property': True})
    return viol, hist, nontrivial


def system_checks(ctx):
    # (a) hand model against the implementation
    cases, hist = _model_cases(ctx, ctx.n(30, 400))
    res = {'name': 'meridional-model-vs-implementation', 'n': 0, 'nontrivial': 0, 'histogram': hist, 'samples': [],
           'disagreements': []}
    try:
        bad, n = _run_model(cases)
        res['n'] = n
        res['nontrivial'] = len({repr(c['ms']) for c in cases})
        for ci, what in bad:
            if ci < 0:
                res['disagreements'].append({'note': what, 'violates_property': False})
            else:
                c = cases[ci]
                res['disagreements'].append({'spec': c['spec'], 'ray(Hy,Py)': c['ray'], 'what': what,
                                             'violates_property': False})
        if cases:
            c = cases[0]
            res['samples'].append({'ray(Hy,Py)': c['ray'], 'surfaces': [s['shape'] for s in c['ms']],
                                   'image_record(y,z,M,N)': c['expect'][-4:]})
    except RuntimeError as e:
        res['error'] = str(e)
    yield res
    # (b) the property itself, on the implementation
    viol, hist2, nontrivial = _oracle_sweep(ctx, ctx.n(36, 600), 9)
    res2 = {'name': 'convergence-order-on-implementation', 'n': hist2['lenses'] * len(EPS) * 2, 'nontrivial': nontrivial,
            'histogram': hist2, 'samples': [], 'disagreements': viol}
    yield res2


def search(ctx, broken, disagreements):
    """the property as a numerical oracle on the real implementation, seeded sweep of fresh lenses (all routes and
    argument forms); returns a list: witnesses that match no open finding first"""
    viol, hist, _ = _oracle_sweep(ctx, ctx.n(60, 800), 77)
    fresh = [v for v in viol if not any(matches_finding(v, f) for f in _open_findings())]
    known = [v for v in viol if v not in fresh]
    return (fresh[:3] + known[:1]) or None


# ----------------------------------------------------------------------------------------------
# known findings
# ----------------------------------------------------------------------------------------------
def _open_ids():
    import vlib
    return {f['id'] for f in vlib.load_known_findings(PROP)}


def _open_findings():
    import vlib
    return vlib.load_known_findings(PROP)


def _has_r2_asphere(spec):
    return any(s.get('type') == 'even_asphere' and s.get('coefficients') and s['coefficients'][0] != 0
               for s in spec['surfaces'])


def _clause_candidates(b, spec, launch_affected=False):
    """ids of the findings (open or repaired) that would explain one oracle complaint"""
    cl = b['clause']
    finite = math.isfinite(spec['object_thickness'])
    out = []
    if cl == 'paraxial-trace' and 'H_P' in b:
        if finite and spec['field_type'] == 'angle':
            out.append('paraxial-trace-finite-angle')
        if spec['field_type'] == 'object_height' and b['H_P'][0] != 0:
            out.append('object-height-sign')     # Paraxial.trace used -field_y like chief_ray
    if spec['field_type'] == 'object_height' and cl in ('chief-y', 'chief-u'):
        r = b.get('ratio_real_over_paraxial')
        if r is not None and abs(r + 1) < 1e-3:
            out.append('object-height-sign')
    if cl == 'paraxial-vs-prescription' and _has_r2_asphere(spec) and b.get('matches_radius_only'):
        out.append('even-asphere-r2-ignored')     # the library's paraxial value is the one of the curvature 1/R alone
    if _has_r2_asphere(spec) and cl in ('marginal-y', 'marginal-u', 'chief-y', 'chief-u', 'axial-focus', 'axial-focus-F2',
                                        'chief-stop-centre', 'paraxial-trace'):
        # only surfaces at or behind the first such asphere can be affected
        first = min(i for i, s in enumerate(spec['surfaces'])
                    if s.get('type') == 'even_asphere' and s.get('coefficients') and s['coefficients'][0] != 0) + 1
        # ... unless the launch itself is derived from the affected paraxial data (EPD from an image F-number, entrance
        # pupil of a stop behind the asphere): then the real bundle differs from the prescription's at every surface
        if launch_affected or b.get('surface', first) >= first:
            out.append('even-asphere-r2-ignored')
    return out


def matches_finding(w, f):
    """a witness is a listed finding only if EVERY complaint of the oracle is explained by a finding that is
    still OPEN (a repaired defect that comes back alarms) and at least one complaint by this one"""
    spec = w.get('spec')
    orc = w.get('oracle') or []
    if not spec or not orc:
        return False
    open_ids = _open_ids()
    mine = False
    launch_affected = any(b['clause'] == 'paraxial-vs-prescription' and b.get('quantity') in ('EPD', 'EPL')
                          and b.get('matches_radius_only') for b in orc)
    for b in orc:
        cands = [i for i in _clause_candidates(b, spec, launch_affected) if i in open_ids]
        if not cands:
            return False
        mine = mine or f['id'] in cands
    return mine


ASPH_REPLAY = {
    'object_thickness': float('inf'),
    'surfaces': [{'type': 'even_asphere', 'radius': 60.0, 'conic': 0.0, 'coefficients': [5e-4, 0.0], 'thickness': 5.0,
                  'is_stop': True, 'material': ['ideal', 1.5, 0.0]},
                 {'type': 'standard', 'radius': -90.0, 'thickness': 70.0, 'material': 'air'}],
    'aperture': ['EPD', 6.0], 'field_type': 'angle', 'fields': [[0.0, 0.0, 0.0, 0.0], [3.0, 0.0, 0.0, 0.0]],
    'wavelengths': [[0.55, True]], 'telecentric': False}
HEIGHT_REPLAY = {
    'object_thickness': 120.0,
    'surfaces': [{'type': 'standard', 'radius': 50.0, 'thickness': 5.0, 'is_stop': False, 'material': ['ideal', 1.5, 0.0]},
                 {'type': 'standard', 'radius': -60.0, 'thickness': 3.0, 'material': 'air'},
                 {'type': 'standard', 'radius': float('inf'), 'thickness': 80.0, 'is_stop': True, 'material': 'air'}],
    'aperture': ['EPD', 5.0], 'field_type': 'object_height', 'fields': [[0.0, 0.0, 0.0, 0.0], [6.0, 0.0, 0.0, 0.0]],
    'wavelengths': [[0.55, True]], 'telecentric': False}
ANGLE_REPLAY = dict(HEIGHT_REPLAY, field_type='angle', fields=[[0.0, 0.0, 0.0, 0.0], [5.0, 0.0, 0.0, 0.0]])


def replay_finding(ctx, f):
    import warnings
    import lensgen
    warnings.simplefilter('ignore')
    spec = {'even-asphere-r2-ignored': ASPH_REPLAY, 'object-height-sign': HEIGHT_REPLAY,
            'paraxial-trace-finite-angle': ANGLE_REPLAY}.get(f['id'])
    if spec is None:
        return None
    o = build_lens(spec)
    bad, _ = convergence_oracle(o, spec)
    w = {'spec': spec, 'oracle': bad}
    if f['id'] == 'even-asphere-r2-ignored':
        return any(b['clause'] == 'paraxial-vs-prescription' and b.get('matches_radius_only') for b in bad) and \
            any(b['clause'] in ('paraxial-trace', 'axial-focus-F2') for b in bad)
    if f['id'] == 'object-height-sign':
        return any(b['clause'] in ('chief-y', 'chief-u') and abs((b.get('ratio_real_over_paraxial') or 0) + 1) < 1e-3
                   for b in bad)
    if f['id'] == 'paraxial-trace-finite-angle':
        return any(b['clause'] == 'paraxial-trace' and 'H_P' in b for b in bad)
    return None


def broken_explained(b, known, witnesses):
    return False

"""C01 - lens prescription stays consistent under any history of edits."""
import json
import math
import os
import random

from props.common import BASE_TRUSTED

PROP = 'C01'
KERNELS = ['c01_cfg_cs', 'c01_get_thickness', 'c01_set_thickness', 'c01_image_solve', 'c01_pickup_apply',
           'c01_mrh_apply', 'c01_add_wavelength',
           'c01_thickness_scale', 'c01_thickness_inverse_scale', 'c01_thickness_update',
           'c01_radius_scale', 'c01_radius_inverse_scale', 'c01_radius_update',
           'c01_index_scale', 'c01_index_inverse_scale', 'c01_index_update',
           'c01_asphere_scale', 'c01_asphere_inverse_scale', 'c01_asphere_update',
           'c01_conic_update', 'c01_tilt_inverse_scale', 'c01_decenter_inverse_scale',
           'c01_tilt_update', 'c01_decenter_update',
           'surf_trace_paraxial']
THEOREMS = ['C01_at_most_one_stop', 'C01_at_most_one_stop_from_empty', 'C01_exactly_one_primary',
            'C01_add_wavelength_appends', 'C01_build_in_order', 'C01_build_thicknesses',
            'C01_set_thickness_refines', 'C01_set_thickness_first_zero', 'C01_set_thickness_thk',
            'C01_set_thickness_infinite_object',
            'C01_set_thickness_lens', 'C01_set_thickness_frame', 'C01_thickness_last_write_wins',
            'C01_set_radius_exact', 'C01_set_radius_frame', 'C01_set_radius_keeps_conic', 'C01_set_conic_exact',
            'C01_set_asphere_coeff_exact', 'C01_setZ_getZ',
            'C01_set_index_media', 'C01_set_index_readback', 'C01_set_index_frame',
            'C01_pickup_radius_satisfied', 'C01_pickup_conic_satisfied', 'C01_conic_pickup_succeeds',
            'C01_pickup_thickness_satisfied', 'C01_pickups_satisfied_partial',
            'C01_shift_moves_height', 'C01_mrh_solve_correct', 'C01_mrh_kernel_is_shift',
            'C01_mrh_solve_places', 'C01_image_solve_focus', 'C01_image_solve_kernel', 'C01_image_solve_places', 'C01_ready_made_then_keyword']
COQ_TARGETS = ['Model/M_C01_Run.vo', 'Model/Paraxial.vo', 'Lemmas/L_C01_solve.vo', 'Lemmas/L_C01_pickup.vo']
TRUSTED_BASE = BASE_TRUSTED + [
    'tools/py2coq_c01.py (object lists, constructors, kwargs.get, vector-scalar arithmetic on top of py2coq), validated like the base translator by running every kernel against the real method on real Optic / WavelengthGroup / Pickup / Variable objects',
    'hand model coq/Model/M_C01.v (which surface an edit touches, geometry class chosen by the factory, material objects as explicit references, stop flag, pickup / solve managers, order inside update()): tied to optiland by the history correspondence (every observable of every surface after every call, object identity of the media included)',
    'modelled, not verified: catalogue glasses (the model carries one index per material object; histories use ideal media, the implementation oracle does not depend on the medium type); polynomial / Chebyshev coefficient tables are not edited by these calls',
    'the launch of the marginal ray (Model/Paraxial.v, corresponds per C04) is taken as unchanged by a solve in the solve theorems (true for an infinite object with an EPD aperture and a solve behind surface 1)',
]
RULE = ('every numeric argument (radius, conic, thickness, index, coefficients, variable / pickup / solve values; at construction and in edits) is passed in a randomly drawn TYPE: Python float / int, numpy float64 / int64, 0-d arrays, coefficient lists of floats / ints / mixed / numpy floats, tuples, 1-D and 2-D numpy arrays of float and int dtype (integer types after rounding the value or with the placeholder 0), read-back compared as exact values (coefficients: relative 1e-12); polynomial and Chebyshev surfaces take part in radius edits / pickups incl. set_radius(inf), their coefficient tables, norms and class are frame-checked; '
        'histories: object (infinite 60% / finite), 1-12 surfaces appended in index order (plane / sphere / conic / even asphere, '
        'ideal media, mirrors 12%, tilts+decentres 30%, 0-2 is_stop flags, wavelengths interleaved with random primaries), then 0-30 edits '
        'drawn from set_radius / set_conic / set_thickness / set_index / set_asphere_coeff / Variable.update (7 kinds, scaled or not) / '
        'pickups.add (acyclic, one per target) / solves.add / update / image_solve / add_wavelength / remove_surface / insertion / invalid calls; '
        'after EVERY call all surface data, media identities, wavelengths and manager sizes of optiland are compared with the Coq model, and the '
        'clauses of the property are checked directly on optiland (positions = running sums, media chain by object identity, <=1 stop, ==1 primary, '
        'edit changes exactly one quantity and reads back, pickups and solves satisfied after update, image solve focuses; preconditions: arriving slope != 0); '
        'non-trivial = state reached by a call that changed the lens')
PARTIAL = [
    'pickups: proved for one application (radius, conic, thickness) and for lists of radius pickups in which no later pickup writes an earlier source/target; the unrestricted statement is refuted (F_C01.pickups_satisfied_after_update_refuted, finding update-order)',
    'marginal-ray-height solve / image solve: the repaired kernels are proved to place the ray on every surface behind the first for a FIXED launch ray (mrh_solve_places, image_solve_places; hypothesis: arriving slope != 0); when moving the surfaces changes the launch itself (finite object with the stop moved, imageFNO / objectNA aperture) the one-shot solve misses (finding solve-changes-launch), and several solves / pickups interact through the order of update() (finding update-order)',
    'set_index next to a mirror leaves the mirror between two media (finding set-index-mirror-media, F_C01.set_index_keeps_mirror_media_refuted); the chain "behind k = in front of k+1" is proved for every set_index',
    'insertion in the middle / removal: only the stop and primary-wavelength invariants are claimed (and proved for all histories)',
    'last-write-wins over arbitrary edit sequences is proved for thicknesses (the non-trivial family); radius / conic / index / coefficient edits are single-field updates by set_*_exact',
]


# --------------------------------------------------------------------------
# kernel correspondence: every translated kernel against the real Python function on real objects
# --------------------------------------------------------------------------
C01_RUNNER = r'''
import sys, json, types, numpy as np, warnings
warnings.simplefilter('ignore'); np.seterr(all='ignore')
jobs = json.load(open(sys.argv[1]))
from optiland.optic import Optic
from optiland.surfaces.standard_surface import Surface
from optiland.surfaces.surface_factory import SurfaceFactory
from optiland.surfaces.surface_group import SurfaceGroup
from optiland.geometries import Plane
from optiland.coordinate_system import CoordinateSystem
from optiland.materials import IdealMaterial
from optiland.pickup import Pickup
from optiland.solves import MarginalRayHeightSolve
from optiland.wavelength import WavelengthGroup, Wavelength
import optiland.optimization.variable as V
from optiland.optimization.variable.thickness import ThicknessVariable
from optiland.optimization.variable.radius import RadiusVariable
from optiland.optimization.variable.index import IndexVariable
from optiland.optimization.variable.asphere_coeff import AsphereCoeffVariable
from optiland.optimization.variable.conic import ConicVariable
from optiland.optimization.variable.tilt import TiltVariable
from optiland.optimization.variable.decenter import DecenterVariable
VCLS = {'thickness': ThicknessVariable, 'radius': RadiusVariable, 'index': IndexVariable, 'asphere': AsphereCoeffVariable,
        'conic': ConicVariable, 'tilt': TiltVariable, 'decenter': DecenterVariable}
H = lambda v: float(v).hex()
F = lambda v: float.fromhex(v) if isinstance(v, str) else float(v)
def optic_with(zs, xs=None, ys=None, rxs=None, rys=None):
    o = Optic()
    m = IdealMaterial(1.0)
    for i, z in enumerate(zs):
        cs = CoordinateSystem(x=(xs[i] if xs else 0), y=(ys[i] if ys else 0), z=z, rx=(rxs[i] if rxs else 0), ry=(rys[i] if rys else 0))
        o.surface_group.surfaces.append(Surface(Plane(cs), m, m))
    return o
def col(xs):
    return np.array([[x] for x in xs], dtype=float)
allout = {}
for job in jobs:
  name = job['kernel']
  inputs = [i['path'] for i in job['manifest']['inputs']]
  out = []
  allout[name] = out
  for case in job['cases']:
    a = dict(zip(inputs, case))
    try:
        if name == 'c01_cfg_cs':
            sg = types.SimpleNamespace(positions=col([F(v) for v in a['self._surface_group.positions']]))
            sf = SurfaceFactory(sg); sf.last_thickness = F(a['self.last_thickness'])
            kw = {}
            for k in ('dx', 'dy', 'rx', 'ry'):
                v = F(a['kwargs.' + k])
                if v != 0.0 or a.get('_keep_' + k):
                    kw[k] = v
            cs = sf._configure_cs(int(a['index']), F(a['thickness']), **kw)
            res = [H(cs.x), H(cs.y), H(np.ravel(cs.z)[0]), H(cs.rx), H(cs.ry)]
        elif name == 'c01_get_thickness':
            o = optic_with([F(v) for v in a['self.positions']])
            res = [H(np.ravel(o.surface_group.get_thickness(int(a['surface_number'])))[0])]
        elif name == 'c01_set_thickness':
            o = optic_with([F(v) for v in a['self.surface_group.positions']])
            o.set_thickness(F(a['value']), int(a['surface_number']))
            res = [[H(np.ravel(s.geometry.cs.z)[0]) for s in o.surface_group.surfaces]]
        elif name in ('c01_image_solve', 'c01_mrh_apply'):
            pre = 'self.' if name == 'c01_image_solve' else 'self.optic.'
            zs = [F(v) for v in a[pre + 'surface_group.surfaces[].geometry.cs.z']]
            o = optic_with(zs)
            ya = col([F(v) for v in a[pre + 'paraxial.marginal_ray().R0']]); ua = col([F(v) for v in a[pre + 'paraxial.marginal_ray().R1']])
            o.paraxial.marginal_ray = lambda: (ya, ua)
            if name == 'c01_image_solve':
                o.image_solve()
            else:
                MarginalRayHeightSolve(o, int(a['self.surface_idx']), F(a['self.height'])).apply()
            res = [[H(np.ravel(s.geometry.cs.z)[0]) for s in o.surface_group.surfaces]]
        elif name == 'c01_pickup_apply':
            p = Pickup(None, 0, 'radius', 1, F(a['self.scale']), F(a['self.offset']))
            got = []
            p._get_value = lambda: F(a['self._get_value()'])
            p._set_value = lambda v: got.append(v)
            p.apply()
            res = [H(got[0])]
        elif name == 'c01_add_wavelength':
            g = WavelengthGroup()
            for v, pr in zip(a['self.wavelengths[]._value'], a['self.wavelengths[].is_primary']):
                g.wavelengths.append(Wavelength(F(v), bool(pr), 'um'))
            g.add_wavelength(F(a['value']), bool(a['is_primary']), a['unit'])
            res = [[H(w._value) for w in g.wavelengths], [bool(w.is_primary) for w in g.wavelengths]]
        elif name.endswith('_scale'):
            kind = name[4:].rsplit('_', 1)[0].replace('_inverse', '')
            cls = VCLS[kind]
            v = object.__new__(cls)
            if 'self.coeff_number' in a: v.coeff_number = int(a['self.coeff_number'])
            if 'inverse' in name:
                res = [H(v.inverse_scale(F(a['scaled_value'])))]
            else:
                res = [H(v.scale(F(a['value'])))]
        elif name in ('c01_tilt_update', 'c01_decenter_update'):
            kind = name[4:-7]
            f1, f2 = ('rx', 'ry') if kind == 'tilt' else ('x', 'y')
            l1 = [F(v) for v in a['self._surfaces.surfaces[].geometry.cs.' + f1]]
            l2 = [F(v) for v in a['self._surfaces.surfaces[].geometry.cs.' + f2]]
            o = optic_with([0.0] * len(l1), **({'rxs': l1, 'rys': l2} if kind == 'tilt' else {'xs': l1, 'ys': l2}))
            v = VCLS[kind](o, int(a['self.surface_number']), a['self.axis'], apply_scaling=bool(a['self.apply_scaling']))
            v.update_value(F(a['new_value']))
            res = [[H(getattr(s.geometry.cs, f1)) for s in o.surface_group.surfaces],
                   [H(getattr(s.geometry.cs, f2)) for s in o.surface_group.surfaces]]
        elif name.endswith('_update'):
            kind = name[4:-7]
            got = []
            rec = lambda *args: got.extend(args)
            o = types.SimpleNamespace(surface_group=None, set_thickness=rec, set_radius=rec, set_index=rec,
                                      set_asphere_coeff=rec, set_conic=rec)
            v = object.__new__(VCLS[kind])
            v.optic = o; v.surface_number = int(a['self.surface_number'])
            v.apply_scaling = bool(a.get('self.apply_scaling', False))
            if 'self.coeff_number' in a: v.coeff_number = int(a['self.coeff_number'])
            v.update_value(F(a['new_value']))
            res = [H(got[0])] + [int(x) for x in got[1:]]
        else:
            raise KeyError(name)
        out.append({'ok': res})
    except Exception as e:
        out.append({'err': type(e).__name__, 'msg': str(e)[:100]})
json.dump(allout, open(sys.argv[2], 'w'))
'''


def _enc(man, cases):
    enc = []
    for c in cases:
        ec = []
        for inp, v in zip(man['inputs'], c):
            if inp['kind'] == 'num':
                ec.append(float(v).hex())
            elif inp['kind'] == 'list':
                ec.append([float(x).hex() for x in v])
            else:
                ec.append(v)
        enc.append(ec)
    return enc


def _order(man, d):
    """case dict path -> value, in manifest order"""
    return [d[i['path']] for i in man['inputs']]


def kernel_cases(ctx):
    g = ctx.gen
    r = g.r
    n = ctx.n(100, 1500)
    M = ctx.manifests

    def emit(name, dicts, tol=None):
        if name not in M:
            return None
        cases = [_order(M[name], d) for d in dicts]
        opts = {}
        if tol is not None:
            opts['tol'] = tol
        return name, cases, opts

    def zlist(m, inf=False):
        z = [(-float('inf') if inf else -g.uni(20, 300)), 0.0]
        for _ in range(m - 2):
            z.append(z[-1] + g.uni(-5, 30))
        return z[:m]
    out = []
    # vertex of a new surface
    ds = []
    for i in range(n):
        m = r.randrange(0, 9)
        idx = r.randrange(0, m + 1)
        ds.append({'index': idx, 'thickness': r.choice([g.uni(-5, 60), float('inf')]) if idx == 0 else g.uni(-5, 60),
                   'kwargs.dx': r.choice([0.0, g.uni(-1, 1)]), 'kwargs.dy': r.choice([0.0, g.uni(-1, 1)]),
                   'kwargs.rx': r.choice([0.0, g.uni(-0.1, 0.1)]), 'kwargs.ry': r.choice([0.0, g.uni(-0.1, 0.1)]),
                   'self._surface_group.positions': zlist(max(m, 1), inf=r.random() < 0.5) if m else [0.0],
                   'self.last_thickness': g.uni(-5, 60)})
    out.append(emit('c01_cfg_cs', ds))
    ds = []
    for i in range(n):
        m = r.randrange(2, 10)
        ds.append({'surface_number': r.randrange(0, m - 1), 'self.positions': zlist(m, inf=r.random() < 0.3)})
    out.append(emit('c01_get_thickness', ds))
    ds = []
    for i in range(n):
        m = r.randrange(2, 12)
        inf = r.random() < 0.4
        k = r.randrange(0, m - 1)
        ds.append({'value': g.uni(0.1, 50), 'surface_number': k, 'self.surface_group.positions': zlist(m, inf=inf),
                   'self.surface_group.surfaces.__len__': m})
    out.append(emit('c01_set_thickness', ds))
    ds, ds2 = [], []
    for i in range(n):
        m = r.randrange(2, 12)
        ya = [g.uni(-5, 5) for _ in range(m)]
        ua = [r.choice([g.uni(-0.2, 0.2), 0.0 if i % 13 == 0 else g.uni(-0.2, 0.2)]) for _ in range(m)]
        zs = zlist(m, inf=r.random() < 0.5)
        ds.append({'self.paraxial.marginal_ray().R0': ya, 'self.paraxial.marginal_ray().R1': ua,
                   'self.surface_group.surfaces[].geometry.cs.z': zs})
        ds2.append({'self.optic.paraxial.marginal_ray().R0': ya, 'self.optic.paraxial.marginal_ray().R1': ua,
                    'self.height': g.uni(-3, 3), 'self.surface_idx': r.randrange(0, m),
                    'self.optic.surface_group.surfaces[].geometry.cs.z': zs,
                    'self.optic.surface_group.surfaces.__len__': m})
    out.append(emit('c01_image_solve', ds))
    out.append(emit('c01_mrh_apply', ds2))
    out.append(emit('c01_pickup_apply', [{'self._get_value()': r.choice([g.uni(-200, 200), float('inf')]),
                                          'self.scale': g.uni(-3, 3), 'self.offset': g.uni(-10, 10)} for _ in range(n)]))
    ds = []
    for i in range(n):
        m = r.randrange(0, 6)
        prims = [False] * m
        if m:
            prims[r.randrange(m)] = True
        ds.append({'value': g.uni(0.3, 2.0), 'is_primary': r.random() < 0.5, 'unit': 'um',
                   'self.wavelengths.__len__': m, 'self.wavelengths[].is_primary': prims, 'self.num_wavelengths': m,
                   'self.wavelengths[]._value': [g.uni(0.3, 2.0) for _ in range(m)]})
    out.append(emit('c01_add_wavelength', ds))
    for kind in ('thickness', 'radius', 'index', 'asphere'):
        ex = {'self.coeff_number': 0} if kind == 'asphere' else {}
        d1 = [dict(ex, value=g.uni(-300, 300), **({'self.coeff_number': r.randrange(0, 5)} if kind == 'asphere' else {}))
              for _ in range(n)]
        d2 = [dict(ex, scaled_value=g.uni(-5, 5), **({'self.coeff_number': r.randrange(0, 5)} if kind == 'asphere' else {}))
              for _ in range(n)]
        out.append(emit(f'c01_{kind}_scale', d1))
        out.append(emit(f'c01_{kind}_inverse_scale', d2))
        d3 = []
        for _ in range(n):
            d = {'new_value': g.uni(-5, 5), 'self.apply_scaling': r.random() < 0.5, 'self.surface_number': r.randrange(0, 12)}
            if kind == 'asphere':
                d['self.coeff_number'] = r.randrange(0, 5)
            d3.append(d)
        out.append(emit(f'c01_{kind}_update', d3))
    out.append(emit('c01_conic_update', [{'new_value': g.uni(-3, 2), 'self.surface_number': r.randrange(0, 12)} for _ in range(n)]))
    for kind in ('tilt', 'decenter'):
        out.append(emit(f'c01_{kind}_inverse_scale', [{'scaled_value': g.uni(-1, 1)} for _ in range(n)]))
        f1, f2 = ('rx', 'ry') if kind == 'tilt' else ('x', 'y')
        ds = []
        for _ in range(n):
            m = r.randrange(1, 8)
            ds.append({'new_value': g.uni(-1, 1), 'self.apply_scaling': r.random() < 0.5, 'self.surface_number': r.randrange(0, m),
                       'self.axis': r.choice(['x', 'y']),
                       f'self._surfaces.surfaces[].geometry.cs.{f1}': [g.uni(-1, 1) for _ in range(m)],
                       f'self._surfaces.surfaces[].geometry.cs.{f2}': [g.uni(-1, 1) for _ in range(m)]})
        out.append(emit(f'c01_{kind}_update', ds))
    out = [e for e in out if e is not None]
    import vlib
    # one Python process runs the real methods for all kernels
    allres = vlib.run_python(C01_RUNNER, [{'kernel': nm, 'manifest': M[nm], 'cases': _enc(M[nm], cases)}
                                          for nm, cases, _ in out])
    for nm, cases, opts in out:
        opts['pyres'] = allres[nm]
        yield nm, cases, opts


# --------------------------------------------------------------------------
# histories: model vs implementation, and the property oracle on the implementation
# --------------------------------------------------------------------------
def _histories(ctx, n, salt=0, **kw):
    import c01lib
    rng = random.Random(ctx.seed * 1009 + 17 + salt)
    return [c01lib.gen_history(rng, **kw) for _ in range(n)]


def _witness(h, v):
    w = dict(v)
    w['history'] = {'ap': h['ap'], 'ops': h['ops'][:v['op_index'] + 1],
                    'types': {k: t for k, t in (h.get('types') or {}).items() if int(k) <= v['op_index']}}
    w['violates_property'] = True
    return w


# --------------------------------------------------------------------------
# fixed corpus: one history per CLASS of route / input that matters (independent of the random stream)
# --------------------------------------------------------------------------
def _obj(t0, mat='air'):
    return ['add', 0, 'standard', INF, 0.0, [], t0, mat, False, 0.0, 0.0, 0.0, 0.0]


def _kw(i, R, t, mat='air', stop=False, k=0.0, st='standard', c=None, dec=(0.0, 0.0, 0.0, 0.0)):
    return ['add', i, st, R, k, c or [], t, mat, stop] + list(dec)


def corpus():
    import c01lib
    W = ['wavelength', 0.55, True]
    G, F = ['ideal', 1.5168], ['ideal', 1.6727]
    out = []
    # immersed object space, objectNA aperture, solves with non-zero heights (behind surface 1), update
    for n0, NA, idx, h in ((1.33, 0.25, 3, 1.5), (1.515, 0.2, 4, -0.8), (1.0, 0.15, 3, 1.0)):
        out.append({'ap': ['objectNA', NA], 'nbuild': 7, 'route': 'direct', 'class': 'immersed-objectNA-solve',
                    'ops': [_obj(30.0, ['ideal', n0] if n0 != 1.0 else 'air'), W, _kw(1, 40.0, 5.0, G, True), _kw(2, -40.0, 12.0),
                            _kw(3, 60.0, 4.0, F), _kw(4, -90.0, 50.0), _kw(5, INF, 0.0),
                            ['solve', idx, h], ['set_radius', 45.0, 1], ['update'], ['set_thickness', 6.0, 1], ['update']]})
    # ready-made Surface objects (add_surface(new_surface=...)) mixed with keyword surfaces, gaps all different
    out.append({'ap': ['EPD', 8.0], 'nbuild': 7, 'route': 'direct', 'class': 'ready-made-surfaces',
                'ops': [_obj(INF), W, _kw(1, 50.0, 4.0, G, True), ['add_obj', 2, 'standard', -50.0, 0.0, [], 30.0, 'air', False, 0.0],
                        _kw(3, -40.0, 2.5, F), _kw(4, INF, 41.0), _kw(5, INF, 0.0),
                        ['set_thickness', 3.0, 2], ['solve', 5, 0.0]]})
    out.append({'ap': ['EPD', 6.0], 'nbuild': 8, 'route': 'reuse', 'class': 'ready-made-stop-and-image',
                'ops': [_obj(120.0), W, _kw(1, 35.0, 3.0, G), _kw(2, -80.0, 7.5),
                        ['add_obj', 3, 'standard', INF, 0.0, [], 12.0, 'air', True, 0.0], _kw(4, 60.0, 5.0, G), _kw(5, -60.0, 55.0),
                        ['add_obj', 6, 'image', INF, 0.0, [], 0.0, 'same', False, 0.0],
                        ['image_solve'], ['set_index', 1.6, 4], ['set_thickness', 100.0, 0], ['set_thickness', 4.0, 3]]})
    # a thickness of exactly 0, integer / numpy typed arguments, second stop flag
    out.append({'ap': ['EPD', 7.0], 'nbuild': 7, 'route': 'reuse', 'class': 'zero-gap-int-types',
                'types': {'2': {'R': 'int', 't': 'int', 'k': 'np.int64'}, '3': {'t': 'arr0d_i', 'R': 'np.int64'},
                          '4': {'t': 'int'}, '7': {'v': 'int'}},
                'ops': [_obj(INF), W, _kw(1, 60.0, 5.0, G, True, k=-1.0), _kw(2, -60.0, 0.0, F), _kw(3, -200.0, 7.0, 'air', True),
                        _kw(4, INF, 40.0), _kw(5, INF, 0.0),
                        ['set_thickness', 2.0, 2], ['set_index', 1.7, 1], ['set_index', 1.55, 2], ['set_thickness', 9.0, 0]]})
    # placeholder coefficient lists of ints / tuples / int arrays, filled in afterwards; asphere under radius pickups
    for cls in ('list_i', 'tuple_i', 'arr_i', 'list_mixed'):
        out.append({'ap': ['EPD', 9.0], 'nbuild': 6, 'route': 'direct', 'class': 'asphere-placeholder-' + cls,
                    'types': {'2': {'c': cls}},
                    'ops': [_obj(INF), W, _kw(1, 40.0, 6.0, G, True, k=-0.5, st='even_asphere', c=[0.0, 0.0, 0.0]), _kw(2, INF, 4.0),
                            _kw(3, -60.0, 50.0), _kw(4, INF, 0.0),
                            ['set_coeff', -2.5e-4, 1, 0], ['var', 'asphere_coeff', 1, False, 3.75e-9, 2],
                            ['var', 'asphere_coeff', 1, True, 0.02, 1], ['pickup', 2, 'radius', 1, -1.0, 0.0],
                            ['set_coeff', 1e-6, 1, -1], ['set_radius', 500.0, 2], ['update'], ['set_radius', INF, 1]]})
    out.append({'ap': ['EPD', 9.0], 'nbuild': 6, 'route': 'direct', 'class': 'polynomial-chebyshev-radius-edits',
                'ops': [_obj(INF), W, _kw(1, 70.0, 5.0, G, True, st='polynomial', c=[[0.0, 1e-4], [2e-4, 0.0]]),
                        _kw(2, INF, 6.0), _kw(3, -80.0, 40.0, 'air', False, st='chebyshev', c=[[0.0, 1e-3], [1e-3, 1e-4]]), _kw(4, INF, 0.0),
                        ['pickup', 2, 'radius', 3, 1.0, 0.0], ['set_radius', INF, 1], ['set_radius', 65.0, 1], ['set_conic', -1.0, 3],
                        ['set_radius', -75.0, 2], ['update']]})
    # chained pickups / solve order: pickups before solves, solve on surface 1 and on the image surface
    out.append({'ap': ['EPD', 10.0], 'nbuild': 7, 'route': 'direct', 'class': 'pickups-then-solves',
                'ops': [_obj(INF), W, _kw(1, 50.0, 5.0, G, True), _kw(2, -50.0, 40.0), _kw(3, 80.0, 3.0, F), _kw(4, INF, 30.0), _kw(5, INF, 0.0),
                        ['pickup', 1, 'radius', 2, -1.0, 0.0], ['pickup', 1, 'thickness', 3, 1.0, 0.0], ['solve', 5, 0.0],
                        ['set_radius', 70.0, 1], ['set_thickness', 8.0, 1], ['update'], ['set_thickness', 12.0, 2], ['update']]})
    # a stop inserted IN FRONT of the existing stop, removal, a second primary wavelength
    out.append({'ap': ['EPD', 6.0], 'nbuild': 7, 'route': 'direct', 'class': 'insert-stop-in-front',
                'ops': [_obj(INF), W, _kw(1, 50.0, 5.0, G), _kw(2, -50.0, 10.0), _kw(3, 80.0, 3.0, F, True), _kw(4, -70.0, 30.0), _kw(5, INF, 0.0),
                        ['add', 2, 'standard', 30.0, 0.0, [], 1.0, 'air', True, 0.0, 0.0, 0.0, 0.0], ['wavelength', 0.6, True],
                        ['add', 5, 'standard', 44.0, 0.0, [], 1.0, 'air', True, 0.0, 0.0, 0.0, 0.0], ['remove', 2]]})
    for h in out:
        h.setdefault('types', {})
        c01lib.place_ready(h)
    return out



def system_checks(ctx):
    import c01lib
    hists = corpus() + _histories(ctx, ctx.n(90, 1500))
    res = {'name': 'edit-histories-model-vs-implementation', 'n': 0, 'nontrivial': 0, 'samples': [],
           'disagreements': [], 'histogram': {}}
    try:
        impls, fails, n = c01lib.model_vs_impl(hists, tol=1e-9, tag='C01hist')
    except RuntimeError as e:
        res['error'] = str(e)
        yield res
        return
    res['n'] = n
    hist = {'histories': len(hists), 'ops': {}, 'raised': {}, 'surfaces': {}}
    nontrivial = 0
    for h, im in zip(hists, impls):
        prev = None
        for op, r in zip(h['ops'], im):
            hist['ops'][op[0]] = hist['ops'].get(op[0], 0) + 1
            if r[0] == 'err':
                hist['raised'][op[0] + ':' + r[1]] = hist['raised'].get(op[0] + ':' + r[1], 0) + 1
            else:
                if r[1] != prev:
                    nontrivial += 1
                prev = r[1]
        ns = sum(1 for o in h['ops'][:h['nbuild']] if o[0] == 'add')
        hist['surfaces'][ns] = hist['surfaces'].get(ns, 0) + 1
    res['nontrivial'] = nontrivial
    res['histogram'] = hist
    for hi, st in fails[:5]:
        h = hists[hi]
        # a disagreement between the model and optiland: is the property itself violated on optiland there?
        sub = {'ap': h['ap'], 'ops': h['ops'][:max(st, 0) + 1], 'nbuild': h.get('nbuild', 0), 'types': h.get('types') or {}}
        v = c01lib.check_history(sub)
        d = {'history': sub, 'step': st, 'op': h['ops'][st] if st >= 0 else None,
             'implementation': (impls[hi][st][0] if st >= 0 else None), 'violates_property': bool(v)}
        if v:
            d.update(v[0])
        res['disagreements'].append(d)
    if hists:
        res['samples'].append({'ops': [o[0] for o in hists[0]['ops']][:14], 'states_compared': len(impls[0])})
    yield res

    # the property on the implementation (every clause after every call)
    res2 = {'name': 'property-oracle-on-implementation', 'n': 0, 'nontrivial': 0, 'samples': [], 'disagreements': [],
            'histogram': {}}
    clauses = {}
    extra = _histories(ctx, ctx.n(50, 800), salt=5, focus='solve') + _histories(ctx, ctx.n(50, 800), salt=6, focus='pickup') \
        + _histories(ctx, ctx.n(30, 600), salt=7, focus='index') + _histories(ctx, ctx.n(70, 900), salt=8, focus='asphere')
    seen_ids = set()
    for h in hists + extra:
        res2['n'] += len(h['ops'])
        v = c01lib.check_history(h)
        if not v:
            res2['nontrivial'] += 1
            continue
        w = _witness(h, v[0])
        clauses[w['clause']] = clauses.get(w['clause'], 0) + 1
        key = (w['clause'], json.dumps(w['op'], default=str))
        fid = _finding_of(w)
        if fid is None or fid not in seen_ids:
            seen_ids.add(fid)
            res2['disagreements'].append(w)
    res2['histogram'] = {'histories': len(hists) + len(extra), 'violated_clause_counts': clauses,
                         'argument_type_classes': c01lib.type_histogram(hists + extra),
                         'routes_and_entry_points': c01lib.route_histogram(hists + extra),
                         'corpus_classes': [h_['class'] for h_ in corpus()]}
    yield res2


def search(ctx, broken, disagreements):
    """the property stated on optiland itself, seeded sweep over edit histories (all mixes)"""
    import c01lib
    found = []
    known = set()
    for h in corpus():
        v = c01lib.check_history(h)
        if v:
            w = _witness(h, v[0])
            if _finding_of(w) is None:
                return [w]
    for salt, kw in ((11, {}), (12, {'focus': 'thickness'}), (13, {'focus': 'solve'}), (14, {'focus': 'pickup'}),
                     (15, {'focus': 'index'}), (17, {'focus': 'asphere'}), (16, {'build_only': True})):
        for h in _histories(ctx, ctx.n(120, 1500), salt=salt, **kw):
            v = c01lib.check_history(h)
            if v:
                w = _witness(h, v[0])
                fid = _finding_of(w)
                if fid is None:
                    return [w] + found  # a violation that is not one of the listed findings comes first
                if fid not in known:
                    known.add(fid)
                    found.append(w)
    return found or None


# --------------------------------------------------------------------------
# known findings
# --------------------------------------------------------------------------
def _is_thickness_edit(op):
    return op[0] == 'set_thickness' or (op[0] == 'var' and op[1] == 'thickness') or (op[0] == 'pickup' and op[2] == 'thickness')


def _finding_of(w):
    """id of the listed finding that explains this witness completely, else None"""
    c = w.get('clause')
    op = w.get('op') or []
    if c == 'solve-height' and w.get('independent_ray'):
        # optiland's own marginal ray sits at the requested height, the marginal ray of the aperture definition
        # does not.  Explained only when a solve on surface <= 1 has pushed the first surface off z = 0 (the
        # paraxial helpers measure the entrance pupil from there); anything else alarms.
        z1 = w.get('first_surface_z')
        if z1 is not None and abs(z1) > 1e-9 and any(s_[0] <= 1 for s_ in (w.get('solves') or [])):
            return 'solve-moves-first-surface'
        return None
    if c == 'solve-height':
        # (the repaired solve is exact for a fixed launch ray: what remains are the two open findings;
        #  a miss with an unchanged launch and no later solve in front is the D03 regression)
        if w.get('launch_changed'):
            return 'solve-changes-launch'
        if w.get('dependency') and w.get('stage') == 'update':
            return 'update-order'
        if w.get('powered_surface'):
            return 'mrh-solve-slope'
        return None
    if c == 'image-solve-focus':
        if w.get('launch_changed'):
            return 'solve-changes-launch'     # e.g. imageFNO aperture and an image surface with power
        return 'image-solve-slope' if w.get('same_medium') is False else None
    if c == 'pickup-unsatisfied':
        return 'update-order' if (w.get('stage') == 'update' and w.get('dependency')) else None
    if c == 'edit-readback' and (w.get('key') or [None])[0] == 'c' and str(w.get('coef_container') or '').startswith('ndarray:int'):
        return 'asphere-coeff-int-array'      # (a LIST of ints takes the value: that case is not this finding)
    if c in ('edit-readback', 'edit-frame', 'edit-first-surface-moved'):
        key = w.get('key') or []
        if key and key[0] == 't' and key[1] == 0 and w.get('object_infinite') and _is_thickness_edit(op) or \
                (op and op[0] == 'pickup' and op[2] == 'thickness' and op[3] == 0 and w.get('object_infinite')):
            return 'set-thickness-infinite-object'
        if c == 'edit-frame' and key and key[0] == 'R' and (w.get('changed') or [None])[0] == 'k' \
                and w['changed'][1] == key[1] and w.get('geom_before') == 'Plane' and w.get('hask_before'):
            return 'set-radius-plane-drops-conic'
        return None
    if c == 'pickup-unsatisfied' and False:
        return None
    if c == 'raises':
        t0 = (((w.get('history') or {}).get('types') or {}).get('0') or {}).get('t')
        if w.get('error') == 'ValueError' and 'Unsupported input type' in str(w.get('msg')) and t0 in ('np.int64', 'arr0d_i') \
                and op and op[0] in ('solve', 'image_solve', 'update'):
            return 'object-thickness-numpy-int'
        if op and (op[0] == 'set_coeff' or (op[0] == 'var' and op[1] == 'asphere_coeff')) and w.get('error') == 'TypeError' \
                and str(w.get('coef_container') or '').startswith('tuple'):
            return 'asphere-coeff-tuple'
        if op and op[0] == 'pickup' and op[2] == 'conic' and w.get('error') == 'AttributeError' \
                and (w.get('geom_before') or [None] * (op[1] + 1))[op[1]] == 'Plane' \
                and not (w.get('hask_before') or [True] * (op[1] + 1))[op[1]]:
            return 'conic-pickup-plane-source'
        return None
    if c == 'mirror-media':
        if op and (op[0] == 'set_index' or (op[0] == 'var' and op[1] == 'index')):
            k = op[2]
            if w.get('surface') in (k, k + 1):
                return 'set-index-mirror-media'
        return None
    return None


def matches_finding(w, f):
    if w.get('clause') == 'pickup-unsatisfied' and w.get('stage') == 'add' and w.get('object_infinite') \
            and (w.get('op') or [0, 0, 0, 1])[2] == 'thickness' and (w.get('op'))[3] == 0:
        return f['id'] == 'set-thickness-infinite-object'
    return _finding_of(w) == f['id']


INF = float('inf')
_BASE = [['add', 0, 'standard', INF, 0.0, [], INF, 'air', False, 0.0, 0.0, 0.0, 0.0],
         ['wavelength', 0.55, True],
         ['add', 1, 'standard', 50.0, 0.0, [], 5.0, ['ideal', 1.5], True, 0.0, 0.0, 0.0, 0.0],
         ['add', 2, 'standard', -50.0, 0.0, [], 40.0, 'air', False, 0.0, 0.0, 0.0, 0.0],
         ['add', 3, 'standard', 80.0, 0.0, [], 3.0, ['ideal', 1.6], False, 0.0, 0.0, 0.0, 0.0],
         ['add', 4, 'standard', INF, 0.0, [], 30.0, 'air', False, 0.0, 0.0, 0.0, 0.0],
         ['add', 5, 'standard', INF, 0.0, [], 0.0, 'air', False, 0.0, 0.0, 0.0, 0.0]]
_MIRROR = [['add', 0, 'standard', INF, 0.0, [], INF, 'air', False, 0.0, 0.0, 0.0, 0.0],
           ['wavelength', 0.55, True],
           ['add', 1, 'standard', -80.0, 0.0, [], 4.0, ['ideal', 1.5], True, 0.0, 0.0, 0.0, 0.0],
           ['add', 2, 'standard', -120.0, 0.0, [], -4.0, 'mirror', False, 0.0, 0.0, 0.0, 0.0],
           ['add', 3, 'standard', -80.0, 0.0, [], -40.0, 'air', False, 0.0, 0.0, 0.0, 0.0],
           ['add', 4, 'standard', INF, 0.0, [], 0.0, 'air', False, 0.0, 0.0, 0.0, 0.0]]
REPLAYS = {
    'mrh-solve-slope': {'ap': ['EPD', 10.0], 'nbuild': 7, 'ops': _BASE + [['solve', 3, 2.0]]},
    'image-solve-slope': {'ap': ['EPD', 10.0], 'nbuild': 7, 'ops': _BASE + [['set_index', 1.7, 4], ['image_solve']]},
    'update-order': {'ap': ['EPD', 10.0], 'nbuild': 7,
                     'ops': _BASE + [['pickup', 2, 'radius', 3, -1.0, 0.0], ['pickup', 1, 'radius', 2, -1.0, 0.0],
                                     ['set_radius', 77.0, 1], ['update']]},
    'set-thickness-infinite-object': {'ap': ['EPD', 10.0], 'nbuild': 7, 'ops': _BASE + [['set_thickness', 100.0, 0]]},
    'set-radius-plane-drops-conic': {'ap': ['EPD', 10.0], 'nbuild': 7,
                                     'ops': _BASE + [['set_conic', -1.0, 4], ['set_radius', 60.0, 4]]},
    'conic-pickup-plane-source': {'ap': ['EPD', 10.0], 'nbuild': 7, 'ops': _BASE + [['pickup', 4, 'conic', 1, 1.0, 0.0]]},
    'asphere-coeff-int-array': {'ap': ['EPD', 10.0], 'nbuild': 5, 'types': {'2': {'c': 'arr_i'}}, 'ops': [
        ['add', 0, 'standard', INF, 0.0, [], INF, 'air', False, 0.0, 0.0, 0.0, 0.0],
        ['wavelength', 0.55, True],
        ['add', 1, 'even_asphere', 40.0, -0.5, [0.0, 0.0, 0.0], 6.0, ['ideal', 1.5], True, 0.0, 0.0, 0.0, 0.0],
        ['add', 2, 'standard', -60.0, 0.0, [], 50.0, 'air', False, 0.0, 0.0, 0.0, 0.0],
        ['add', 3, 'standard', INF, 0.0, [], 0.0, 'air', False, 0.0, 0.0, 0.0, 0.0],
        ['set_coeff', -2.5e-4, 1, 0]]},
    'asphere-coeff-tuple': {'ap': ['EPD', 10.0], 'nbuild': 5, 'types': {'2': {'c': 'tuple_f'}}, 'ops': [
        ['add', 0, 'standard', INF, 0.0, [], INF, 'air', False, 0.0, 0.0, 0.0, 0.0],
        ['wavelength', 0.55, True],
        ['add', 1, 'even_asphere', 40.0, -0.5, [1e-5, 0.0, 0.0], 6.0, ['ideal', 1.5], True, 0.0, 0.0, 0.0, 0.0],
        ['add', 2, 'standard', -60.0, 0.0, [], 50.0, 'air', False, 0.0, 0.0, 0.0, 0.0],
        ['add', 3, 'standard', INF, 0.0, [], 0.0, 'air', False, 0.0, 0.0, 0.0, 0.0],
        ['set_coeff', -2.5e-4, 1, 0]]},
    'object-thickness-numpy-int': {'ap': ['EPD', 10.0], 'nbuild': 5, 'types': {'0': {'t': 'np.int64'}}, 'ops': [
        ['add', 0, 'standard', INF, 0.0, [], 200.0, 'air', False, 0.0, 0.0, 0.0, 0.0],
        ['wavelength', 0.55, True],
        ['add', 1, 'standard', 40.0, 0.0, [], 6.0, ['ideal', 1.5], True, 0.0, 0.0, 0.0, 0.0],
        ['add', 2, 'standard', -60.0, 0.0, [], 50.0, 'air', False, 0.0, 0.0, 0.0, 0.0],
        ['add', 3, 'standard', INF, 0.0, [], 0.0, 'air', False, 0.0, 0.0, 0.0, 0.0],
        ['image_solve']]},
    'solve-moves-first-surface': {'ap': ['EPD', 10.0], 'nbuild': 7, 'ops': [
        ['add', 0, 'standard', INF, 0.0, [], 200.0, 'air', False, 0.0, 0.0, 0.0, 0.0],
        ['wavelength', 0.55, True],
        ['add', 1, 'standard', 50.0, 0.0, [], 5.0, ['ideal', 1.5], False, 0.0, 0.0, 0.0, 0.0],
        ['add', 2, 'standard', -50.0, 0.0, [], 10.0, 'air', True, 0.0, 0.0, 0.0, 0.0],
        ['add', 3, 'standard', 80.0, 0.0, [], 3.0, ['ideal', 1.6], False, 0.0, 0.0, 0.0, 0.0],
        ['add', 4, 'standard', -70.0, 0.0, [], 60.0, 'air', False, 0.0, 0.0, 0.0, 0.0],
        ['add', 5, 'standard', INF, 0.0, [], 0.0, 'air', False, 0.0, 0.0, 0.0, 0.0],
        ['solve', 1, 3.0]]},
    'set-index-mirror-media': {'ap': ['EPD', 5.0], 'nbuild': 6, 'ops': _MIRROR + [['set_index', 1.41, 1]]},
    'solve-changes-launch': {'ap': ['imageFNO', 5.0], 'nbuild': 8, 'ops': [
        ['add', 0, 'standard', INF, 0.0, [], INF, 'air', False, 0.0, 0.0, 0.0, 0.0],
        ['wavelength', 0.55, True],
        ['add', 1, 'standard', 50.0, 0.0, [], 5.0, ['ideal', 1.5], True, 0.0, 0.0, 0.0, 0.0],
        ['add', 2, 'standard', -50.0, 0.0, [], 10.0, 'air', False, 0.0, 0.0, 0.0, 0.0],
        ['add', 3, 'standard', INF, 0.0, [], 5.0, 'air', False, 0.0, 0.0, 0.0, 0.0],
        ['add', 4, 'standard', 80.0, 0.0, [], 3.0, ['ideal', 1.6], False, 0.0, 0.0, 0.0, 0.0],
        ['add', 5, 'standard', -70.0, 0.0, [], 30.0, 'air', False, 0.0, 0.0, 0.0, 0.0],
        ['add', 6, 'standard', INF, 0.0, [], 0.0, 'air', False, 0.0, 0.0, 0.0, 0.0],
        ['solve', 3, 1.0]]},
}


def replay_finding(ctx, f):
    import c01lib
    h = REPLAYS.get(f['id'])
    if h is None:
        return None
    v = c01lib.check_history(h)
    if not v:
        return False
    return _finding_of(_witness(h, v[0])) == f['id']


def broken_explained(b, known, witnesses):
    return False

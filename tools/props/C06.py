"""C06 - analytically stigmatic systems are imaged perfectly."""
import math
from props.common import BASE_TRUSTED

PROP = 'C06'
KERNELS = ['c06_opd_image_to_xp', 'c06_ref_sphere', 'c06_path_length', 'c06_correct_tilt_xy', 'c06_correct_tilt',
           'c06_field_data',
           # shared ray-trace kernels the closed-form theorems are stated on
           'std_distance', 'std_normal', 'std_sag', 'plane_distance', 'reflect', 'refract', 'align']
THEOREMS = ['C06_paraboloid_stigmatic', 'C06_conic_mirror_stigmatic', 'C06_conic_refract_stigmatic',
            'C06_aplanatic_stigmatic', 'C06_sphere_centre_mirror', 'C06_sphere_centre_refract',
            'C06_sphere_centre_mirror_trace', 'C06_std_distance_paraboloid_axial', 'C06_std_distance_from_centre',
            'C06_plane_distance_exact', 'C06_refract_char', 'C06_opd_image_to_xp_at_centre',
            'C06_equal_paths_zero_opd', 'C06_zero_opd_strehl_one', 'C06_strehl_spec_const_phase',
            'C06_std_distance_far_focus_regression', 'C06_conic_mirror_from_focus']
COQ_TARGETS = ['Model/Trace.vo', 'Model/M_C06.vo', 'Lemmas/L_C06_stigmatic.vo', 'Lemmas/L_C06_wavefront.vo']
TRUSTED_BASE = BASE_TRUSTED + [
    'hand model coq/Model/Trace.v (order of the kernels inside Surface._trace_real / SurfaceGroup.trace) and coq/Model/M_C06.v '
    '(Wavefront._generate_data plumbing; FFTPSF centre pixel = DC term of the padded pupil over the DC term of its modulus): '
    'tied by the per-record / per-sample correspondence runs of this check',
    'specification coq/Spec/S_C06.v (conic as a point set, geometric foci R/(1+-e), aplanatic conjugates R(n1+n2)/n1, R(n1+n2)/n2, Strehl of a sampled pupil)',
    'np.fft.fft2/fftshift/np.pad are not modelled here (C11 does); the Strehl model uses only the DC pixel, its agreement with FFTPSF.strehl_ratio is checked numerically',
    'tolerance of the numerical clauses ("to numerical precision"): 4096 ulp x characteristic path length / cos^2 of the steepest image-side ray (tools/c06_lib.tolerances)',
]
RULE = ('eleven closed-form stigmatic configurations (paraboloid at infinity, incl. after a fold mirror with Rc>0; spherical mirror at its centre of curvature; '
        'ellipsoid mirror focus-to-focus both ways; Cassegrain and Gregorian (hyperboloid/ellipsoid secondary); plano-hyperbolic singlet k=-n^2 both directions of travel; '
        'refracting ellipsoid; convex hyperboloid mirror from its far focus (virtual image, ray-level clauses); plano-hyperbolic + aplanatic meniscus, image in air or immersed), half of them reached through an edit history '
        '(built with other conic/radius/thickness/index, incl. flat-first, then set_conic/set_radius/set_thickness/set_index); mirror-only configurations also immersed in a medium n in [1.3,4] (object and image space included) or as a solid catadioptric block (plane entrance face, mirrors as back surfaces), the optical path being re-computed as sum(n x segment length) with the indices of the generated PRESCRIPTION; conics also entered through the even-asphere / polynomial surface types with no polynomial term (Newton-Raphson path, rim ray inside 0.7|Rc|); Optic reached by lensgen.build_via routes handbuilt / reuse-after-reset / to_dict-from_dict; built 1/s times its size and brought to size by scale_system(s); every object checked against the generated prescription (lensgen.prescription_problems + object distance + EPD); 25 fixed corpus cases, one per class; history class `a FLAT surface carries the conic constant, then receives its radius` (set_radius(inf) and back, with a query / a to_dict-from_dict round trip / a set_conic pair in between; built flat and given set_conic THEN set_radius, also after scale_system or in a solid block): 11 + 3 (virtual image) fixed cases and seeded ones from a stream of their own, spheres included; the stop as a separate plane in contact (thickness 0) with the vertex of a convex conic, pupil-centre ray included; the axial field carries random vignetting factors (vx, vy independent, incl. 0 and unequal) in 40% of the instances; seeded radii 15..600 mm, n in [1.3,4], apertures from f/8 to f/0.6 '
        '(NA to 0.9), 16-24 pupil points incl. the rim; FFTPSF sampled with every parity of num_rays, grid_size (odd grids 65..255) and of their difference; non-trivial = instance whose marginal ray is finite at the image')
PARTIAL = [
    'conic_mirror_from_focus derives the vertex sheet from the distance kernel itself (sheet filter, dc4c87d); the plano-hyperbolic/aplanatic theorems and conic_mirror_stigmatic still take "the hit point lies on the vertex sheet of the conic" as a hypothesis (the exact hit distance '
    'returned by k_std_distance is proved only for the paraboloid at infinity and for rays through the centre of curvature); the correspondence run checks it numerically',
    'the theorems are over exact reals: "to numerical precision" is carried by the correspondence runs and the oracle with the stated tolerance',
    'equal_paths_zero_opd covers the axial field point (tilt term zero); zero_opd_strehl_one is about the DC pixel of the model, not about np.fft',
]


# --------------------------------------------------------------------------------------------------
# kernels
# --------------------------------------------------------------------------------------------------
def _py_wavefront_kernel(man, cases):
    """run the real Wavefront method on stub objects; the recorded SurfaceGroup arrays are 2-row arrays
    whose first row is a decoy (the code must read the LAST row)"""
    import inspect
    import types
    import numpy as np
    from optiland.wavefront import Wavefront
    fn = getattr(Wavefront, man['func'])
    pnames = [p for p in inspect.signature(fn).parameters if p != 'self']
    NS = types.SimpleNamespace
    out = []
    for case in cases:
        vals = {i['path']: v for i, v in zip(man['inputs'], case)}
        ncols = 1
        for pth, v in vals.items():
            if pth.endswith('.size'):
                ncols = int(v)
        me = object.__new__(Wavefront)
        me.optic = NS(trace=lambda *a, **k: None)
        me.distribution = NS()
        args = {}
        tup = {}
        pairs = {}
        for inp in man['inputs']:
            pth, kind, v = inp['path'], inp['kind'], vals[inp['path']]
            parts = pth.split('.')
            if pth.endswith('.size'):
                continue
            if parts[0] != 'self':
                if len(parts) == 2 and parts[1] in ('e0', 'e1'):
                    tup.setdefault(parts[0], {})[parts[1]] = float(v)
                elif parts[0] in ('x', 'y'):
                    args[parts[0]] = float(v)
                else:
                    args[parts[0]] = np.array([float(v)])
                continue
            if parts[-1] in ('e0', 'e1') and parts[-2].endswith('()'):      # pair-valued opaque call
                pairs.setdefault(tuple(parts[1:-1]), {})[parts[-1]] = float(v)
                continue
            obj = me
            for q in parts[1:-1]:
                if not hasattr(obj, q):
                    setattr(obj, q, NS())
                obj = getattr(obj, q)
            last = parts[-1]
            if parts[1:3] == ['optic', 'surface_group']:
                val = np.array([[float(v) * 1.7 + 0.3] * ncols, [float(v)] * ncols])
            elif last.endswith('()'):
                val = (lambda _v: (lambda *a, **k: _v))(float(v))
                last = last[:-2]
            elif kind == 'str':
                val = v
            elif parts[1] == 'distribution':
                val = np.array([float(v)])
            else:
                val = float(v)
            setattr(obj, last, val)
        for path_, d in pairs.items():
            obj = me
            for q in path_[:-1]:
                if not hasattr(obj, q):
                    setattr(obj, q, NS())
                obj = getattr(obj, q)
            setattr(obj, path_[-1][:-2], (lambda _v: (lambda *a, **k: _v))((d['e0'], d['e1'])))
        for k, d in tup.items():
            args[k] = (d['e0'], d['e1'])
        if 'wavelength' in pnames and 'wavelength' not in args:
            args['wavelength'] = 0.55          # only handed to material.n(), which is an (opaque) input
        call = [args.get(p) for p in pnames]
        try:
            r = fn(me, *call)
            flat = []

            def fl(x):
                if isinstance(x, tuple):
                    for y in x:
                        fl(y)
                else:
                    flat.append(float(np.ravel(x)[0]).hex())
            fl(r)
            out.append({'ok': flat})
        except Exception as e:     # noqa
            out.append({'err': type(e).__name__, 'msg': str(e)[:80]})
    return out


def _ordered(man, dicts):
    """cases given as {input path: value}; returns them as lists in the manifest's input order
    (a path the generator does not know is an obligation failure, never a silent default)"""
    return [[d[i['path']] for i in man['inputs']] for d in dicts]


def kernel_cases(ctx):
    g = ctx.gen
    n = ctx.n(200, 2000)
    M = ctx.manifests
    SG = 'self.optic.surface_group.'

    def unit():
        return g.unit3()

    # ---- wavefront kernels ----
    base = []
    for i in range(n):
        c = [g.uni(-2, 2), g.uni(-2, 2), g.uni(20, 200) * g.r.choice([-1, 1])]
        R = g.uni(10, 300)
        d = unit()
        if i % 3 == 0:       # the stigmatic situation: the ray is at the centre of the sphere
            p = list(c)
        elif i % 3 == 1:     # aberrated ray near the centre
            p = [c[0] + g.uni(-0.05, 0.05), c[1] + g.uni(-0.05, 0.05), c[2]]
        else:                # ray far from the sphere (miss: negative discriminant -> nan)
            p = [c[0] + g.uni(-2, 2) * R, c[1] + g.uni(-2, 2) * R, c[2]]
        H = [0.0, 0.0] if i % 2 == 0 else [g.uni(-1, 1), g.uni(-1, 1)]
        base.append({
            'xc': c[0], 'yc': c[1], 'zc': c[2], 'R': R, 'r': R,
            SG + 'x': p[0], SG + 'y': p[1], SG + 'z': p[2], SG + 'L': d[0], SG + 'M': d[1], SG + 'N': d[2],
            SG + 'opd': g.uni(50, 900), SG + 'intensity': g.uni(0, 1), SG + 'x.size': (2 if i % 7 == 0 else 1),
            'pupil_z': g.uni(-300, 300),
            'self.optic.image_surface.material_pre.n()': g.r.choice([1.0, g.uni(1.3, 4.0), -g.uni(1.3, 4.0)]),
            'self.optic.object_surface.material_post.n()': g.r.choice([1.0, 1.0, g.uni(1.3, 2.0)]),
            'opd': g.uni(50, 900), 'opd_ref': g.uni(50, 900), 'x': g.uni(-1, 1), 'y': g.uni(-1, 1),
            'wavelength': g.r.choice([0.4861, 0.55, 0.6563]),
            'self.optic.field_type': g.r.choice(['angle', 'angle', 'object_height']),
            'field.e0': H[0], 'field.e1': H[1], 'self.optic.fields.max_field': g.uni(0, 20),
            'self.optic.fields.get_vig_factor().e0': g.r.choice([0.0, 0.0, g.uni(0, 0.4)]),
            'self.optic.fields.get_vig_factor().e1': g.r.choice([0.0, 0.0, g.uni(0, 0.4)]),
            'self.distribution.x': g.uni(-1, 1), 'self.distribution.y': g.uni(-1, 1),
            'self.optic.paraxial.EPD()': g.uni(1, 100),
        })
    for kname, tol in (('c06_opd_image_to_xp', None), ('c06_ref_sphere', None), ('c06_path_length', None),
                       ('c06_correct_tilt_xy', 1e-13), ('c06_correct_tilt', 1e-13), ('c06_field_data', 1e-13)):
        if kname in M:
            cs = _ordered(M[kname], base)
            opts = {'pyres': _py_wavefront_kernel(M[kname], cs)}
            if tol is not None:
                opts['tol'] = tol
            yield kname, cs, opts

    # ---- the shared conic kernels on the inputs the stigmatic configurations produce ----
    dist, nrm = [], []
    for i in range(n):
        R = g.uni(15, 400) * g.r.choice([-1, 1])
        mode = i % 4
        if mode == 0:       # paraboloid, axis-parallel ray, fast aperture (a == 0 branch)
            k, sg = -1.0, g.r.choice([1.0, -1.0])
            r = abs(R) * g.uni(0, 0.45)
            th = g.uni(0, 6.283)
            x, y = r * math.cos(th), r * math.sin(th)
            z = -sg * g.uni(0.2, 2) * abs(R) if sg * R < 0 else -sg * g.uni(0.2, 2) * abs(R)
            d = [0.0, 0.0, sg]
        elif mode == 1:     # sphere, ray leaving the centre of curvature
            k = 0.0
            d = unit()
            x, y, z = 0.0, 0.0, R
        elif mode == 2:     # ellipsoid / hyperboloid, ray leaving the focus R/(1+e)
            e = g.uni(0.1, 3.0)
            if abs(e - 1) < 0.05:
                e = 0.5
            k = -e * e
            d = unit()
            if d[2] * R > 0:
                d[2] = -d[2]
            x, y, z = 0.0, 0.0, R / (1 + e)
        else:               # plano-hyperbolic back face k = -n^2, axis-parallel ray inside the glass
            nn = g.uni(1.3, 4.0)
            k = -nn * nn
            sg = 1.0 if R < 0 else -1.0
            r = abs(R) * g.uni(0, 1.5)
            th = g.uni(0, 6.283)
            x, y = r * math.cos(th), r * math.sin(th)
            z = -sg * g.uni(0.5, 3) * abs(R)
            d = [0.0, 0.0, sg]
        dist.append([k, d[2], d[0], d[1], z, x, y, R])
        rr = abs(R) * g.uni(0, 0.95) / math.sqrt(max(1 + k, 0.05)) if k > -1 else abs(R) * g.uni(0, 2)
        th = g.uni(0, 6.283)
        nrm.append([rr * math.cos(th), rr * math.sin(th), R, k])
    yield 'std_distance', dist, {'scalars': ['self.k', 'self.radius']}
    yield 'std_normal', nrm, {'scalars': ['self.k', 'self.radius'], 'tol': 1e-14}   # self.radius**2 on a Python float goes through libm pow (1 ulp)
    yield 'std_sag', nrm, {'scalars': ['self.k', 'self.radius'], 'tol': 1e-14}


# --------------------------------------------------------------------------------------------------
# system level
# --------------------------------------------------------------------------------------------------
def _instances(ctx, per_config, salt=0):
    import random
    import c06_lib
    rng = random.Random(ctx.seed * 131 + 6 + salt)
    out = []
    if salt == 0:
        out.extend(c06_lib.corpus())          # fixed cases, one per class that matters (seed-independent)
    for name in c06_lib.CONFIGS:
        for _ in range(per_config):
            out.append(c06_lib.gen_config(rng, name))
    # history class `a flat surface carries the conic constant before it receives its radius`: fixed cases and seeded
    # ones from a stream of their own, appended (the instances above and what is drawn for them stay as they were)
    rng_fc = random.Random(ctx.seed * 131 + 6 + salt + 50021)
    if salt == 0:
        out.extend(c06_lib.corpus_flat_carry())
    out.extend(c06_lib.random_flat_carry(rng_fc, max(2, per_config)))
    for cfg in out:
        if cfg.get('flat_carry'):
            cfg['_rng'] = rng_fc
    return out, rng


def _witness(cfg, violations, n_sin_u=None):
    return {'config': cfg['name'], 'params': cfg['params'], 'spec': cfg['spec'],
            'edits_after_build': cfg.get('edits') or [], 'vignetting_vx_vy': cfg.get('vignetting'),
            'medium_class': cfg.get('medium_class', 'air'), 'contact_stop': bool(cfg.get('contact_stop')),
            'entry': cfg.get('entry', 'standard'), 'route': cfg.get('route', 'direct'), 'route_seed': cfg.get('route_seed'),
            'scaled_by': cfg.get('scaled_by'), 'corpus_case': cfg.get('corpus'),
            'flat_surface_carried_the_conic': cfg.get('flat_carry'),
            'image_in_glass': cfg.get('image_in_glass'), 'n_sin_u_image': n_sin_u,
            'violations': violations, 'violates_property': True}


def _confirm(cfg, rng):
    """run the implementation-level oracle on one instance; returns a witness or None"""
    import c06_lib
    bad = c06_lib.oracle(cfg, rng)
    if not bad:
        return None
    try:
        ns = c06_lib.image_cone(c06_lib.build(cfg))
    except Exception:      # noqa
        ns = None
    return _witness(cfg, bad, ns)


def _coq_rec(r, fh):
    return '(mkRec (O:=FOps) ' + ' '.join(fh(v) for v in r) + ')'


def system_checks(ctx):
    import warnings
    import numpy as np
    import vlib
    import lensgen
    import tracecorr
    import c06_lib
    warnings.simplefilter('ignore')
    fh = vlib.fhex
    insts, rng = _instances(ctx, ctx.n(2, 12))
    nr = ctx.n(12, 24)

    # ---------- (A) trace model vs implementation, and the property on the model's own records ----------
    resA = {'name': 'stigmatic-trace-model-vs-implementation', 'n': 0, 'nontrivial': 0, 'samples': [],
            'disagreements': [], 'histogram': {}}
    built = []
    bodies = []
    meta = []
    for cfg in insts:
        try:
            o = c06_lib.build(cfg)
            pts = c06_lib.pupil_points(cfg.get('_rng', rng), nr)
            recs = c06_lib.trace_pencil(o, pts, one_by_one=cfg.get('entry', 'standard') != 'standard')
        except Exception as e:     # noqa
            resA['disagreements'].append(_witness(cfg, [{'kind': 'build-or-trace-raises', 'error': repr(e)[:200]}]))
            continue
        built.append((cfg, o))
        surfs = lensgen.model_surfaces(o, c06_lib.WL)
        cosines = [abs(r[-2][5]) for r in recs if math.isfinite(r[-2][5])]
        tol_mm, _ = c06_lib.tolerances(cfg, min(cosines) if cosines else 1.0)
        lines = []
        defs = ['Definition sys := [' + ';\n  '.join(lensgen.coq_surf(s, fh) for s in surfs) + '].']
        for j, r in enumerate(recs):
            defs.append(f'Definition ray{j} := {tracecorr.coq_ray(r[0], c06_lib.WL)}.')
            flat = [v for rec in r[1:] for v in rec]
            lines.append(f'match trace sys ray{j} with None => false | Some l => close_list {fh(1e-9)} '
                         f'(flat_map ray_fields l) {vlib.flist(flat)} end')
        allr = '[' + '; '.join(f'trace_last sys ray{j}' for j in range(len(recs))) + ']'
        lines.append(f'(let outs := {allr} in forallb (fun o => match o with Some _ => true | None => false end) outs && '
                     f'stig_check (O:=FOps) {fh(tol_mm)} {fh(tol_mm)} {fh(0.0)} {fh(0.0)} '
                     f'(flat_map (fun o => match o with Some r => [r] | None => [] end) outs))')
        bodies.append('\n'.join(defs) + '\nEval vm_compute in (report [\n' + ';\n'.join(lines) + '\n]).\n')
        meta.append((cfg, len(recs), recs))
        resA['histogram'][cfg['name']] = resA['histogram'].get(cfg['name'], 0) + 1
        if any(cfg.get('vignetting') or []):
            key = 'vignetted_axial_field(vx!=vy)' if cfg['vignetting'][0] != cfg['vignetting'][1] else 'vignetted_axial_field(vx==vy)'
            resA['histogram'][key] = resA['histogram'].get(key, 0) + 1
        for key in ('entry:' + cfg.get('entry', 'standard'), 'route:' + cfg.get('route', 'direct'),
                    'brought_to_size_by_scale_system' if cfg.get('scaled_by') else None,
                    ('flat_surface_carried_conic:' + cfg['flat_carry']) if cfg.get('flat_carry') else None,
                    'fixed_corpus_case' if cfg.get('corpus') else None):
            if key and key not in ('entry:standard', 'route:direct'):
                resA['histogram'][key] = resA['histogram'].get(key, 0) + 1
        if cfg.get('medium_class', 'air') != 'air':
            key = 'mirrors_' + cfg['medium_class'] + '_in_medium_n!=1'
            resA['histogram'][key] = resA['histogram'].get(key, 0) + 1
        if cfg.get('contact_stop'):
            resA['histogram']['plane_stop_in_contact_with_conic_vertex'] = resA['histogram'].get('plane_stop_in_contact_with_conic_vertex', 0) + 1
        if cfg.get('edits'):
            resA['histogram']['reached_by_edit_history'] = resA['histogram'].get('reached_by_edit_history', 0) + 1
    try:
        out = vlib.run_cases('C06trace', 'From OV Require Import Model.Trace Model.M_C06.', bodies)
    except RuntimeError as e:
        resA['error'] = str(e)
        out = []
    for (cfg, nrays, recs), r in zip(meta, out):
        if r[0] == 'error':
            resA['error'] = r[1]
            break
        resA['n'] += nrays
        if math.isfinite(recs[1][-1][0]):
            resA['nontrivial'] += 1
        for idx in r[2]:
            if idx < nrays:
                w = _confirm(cfg, rng)
                d = w or {'config': cfg['name'], 'params': cfg['params'], 'violates_property': False}
                d['model_disagrees_at_ray'] = idx
                resA['disagreements'].append(d)
            else:       # the MODEL's records violate the stigmatic clause: is the implementation wrong too?
                w = _confirm(cfg, rng)
                d = w or {'config': cfg['name'], 'params': cfg['params'], 'violates_property': False}
                d['model_violates_stigmatic_clause'] = True
                resA['disagreements'].append(d)
    if meta:
        cfg, _, recs = meta[0]
        resA['samples'].append({'config': cfg['name'], 'params': cfg['params'], 'image_record_marginal': recs[1][-1]})
    yield resA

    # ---------- (B) Wavefront pipeline model vs Wavefront.data ; (C) Strehl model vs FFTPSF ----------
    from optiland.wavefront import Wavefront
    from optiland.psf import FFTPSF
    resB = {'name': 'wavefront-model-vs-implementation', 'n': 0, 'nontrivial': 0, 'samples': [], 'disagreements': []}
    resC = {'name': 'strehl-model-vs-implementation', 'n': 0, 'nontrivial': 0, 'samples': [], 'disagreements': []}
    bodiesB, metaB, bodiesC, metaC = [], [], [], []
    for inst_i, (cfg, o) in enumerate(built):
        wf = None
        try:
            nrw = ctx.n(3, 5)
            wf = Wavefront(o, fields=[(0.0, 0.0)], wavelengths=[c06_lib.WL], num_rays=nrw, distribution='hexapolar')
        except Exception as e:     # noqa
            resB['disagreements'].append(_witness(cfg, [{'kind': 'wavefront-raises', 'error': repr(e)[:200]}]))
        if wf is not None:
            data = np.asarray(wf.data[0][0][0], dtype=float)
            inten = np.asarray(wf.data[0][0][1], dtype=float)
            dist = wf.distribution
            o.trace(0.0, 0.0, c06_lib.WL, None, dist)
            sg = o.surface_group
            cols = [sg.x, sg.y, sg.z, sg.L, sg.M, sg.N, sg.intensity, sg.opd]
            rays = [[float(c[-1, j]) for c in cols] for j in range(cols[0].shape[1])]
            o.trace_generic(0.0, 0.0, 0.0, 0.0, c06_lib.WL)
            chief = [float(c[-1, 0]) for c in [sg.x, sg.y, sg.z, sg.L, sg.M, sg.N, sg.intensity, sg.opd]]
            pupil_z = float(np.ravel(o.paraxial.XPL())[0] + np.ravel(o.surface_group.positions[-1])[0])
            epd = float(np.ravel(o.paraxial.EPD())[0])
            vx, vy = o.fields.get_vig_factor(0.0, 0.0)
            n_obj = float(np.ravel(o.object_surface.material_post.n(c06_lib.WL))[0])
            n_img = float(np.ravel(o.image_surface.material_pre.n(c06_lib.WL))[0])
            env = (f'(mkEnv (O:=FOps) {fh(pupil_z)} "{o.field_type}"%string {fh(0.0)} {fh(0.0)} '
                   f'{fh(float(o.fields.max_field))} {fh(float(vx))} {fh(float(vy))} {fh(epd)} '
                   f'{fh(n_obj)} {fh(n_img)} {fh(c06_lib.WL)})')
            rl = '[' + '; '.join(f'({fh(float(px))}, {fh(float(py))}, {_coq_rec(r, fh)})'
                                 for px, py, r in zip(dist.x, dist.y, rays)) + ']'
            exp = [v for a, b in zip(data, inten) for v in (float(a), float(b))]
            bodiesB.append(f'Definition res := wavefront_data {env} {_coq_rec(chief, fh)} {rl}.\n'
                           f'Eval vm_compute in (report [match res with None => false | Some l => '
                           f'close_list {fh(1e-9)} (flat_map (fun p => [fst p; snd p]) l) {vlib.flist(exp)} end]).\n')
            _, tol_w = c06_lib.tolerances(cfg, min(abs(r[5]) for r in rays) if all(math.isfinite(r[5]) for r in rays) else 1.0)
            metaB.append((cfg, data, tol_w))
        ps = None
        try:
            # all parities of num_rays, grid_size and of their difference, odd grids up to 255
            npsf, grid = c06_lib.psf_sampling_cycle(inst_i, cfg.get('_rng', rng))
            ps = FFTPSF(o, (0.0, 0.0), c06_lib.WL, num_rays=npsf, grid_size=grid)
        except Exception as e:     # noqa
            resC['disagreements'].append(_witness(cfg, [{'kind': 'psf-raises', 'error': repr(e)[:200]}]))
        if ps is not None:
            sval = float(ps.strehl_ratio())
            d0 = np.asarray(ps.data[0][0][0], dtype=float)
            i0 = np.asarray(ps.data[0][0][1], dtype=float)
            dl = '[' + '; '.join(f'({fh(float(a))}, {fh(float(b))})' for a, b in zip(d0, i0)) + ']'
            bodiesC.append(f'Eval vm_compute in (report [close {fh(1e-9)} (strehl_dc (O:=FOps) {dl}) {fh(sval)}]).\n')
            metaC.append((cfg, sval, len(d0), (npsf, grid)))
            resC.setdefault('histogram', {})[f'num_rays%2={npsf % 2},grid%2={grid % 2}'] = \
                resC.get('histogram', {}).get(f'num_rays%2={npsf % 2},grid%2={grid % 2}', 0) + 1
    for res, bodies_, meta_ in ((resB, bodiesB, metaB), (resC, bodiesC, metaC)):
        try:
            out = vlib.run_cases('C06' + res['name'][:4], 'From OV Require Import Model.M_C06.', bodies_)
        except RuntimeError as e:
            res['error'] = str(e)
            out = []
        for m, r in zip(meta_, out):
            if r[0] == 'error':
                res['error'] = r[1]
                break
            cfg = m[0]
            if res is resB:
                data, tol_w = m[1], m[2]
                res['n'] += len(data)
                viol = (not np.all(np.isfinite(data))) or float(np.max(np.abs(data))) > tol_w
                if np.all(np.isfinite(data)):
                    res['nontrivial'] += 1
            else:
                sval = m[1]
                res['n'] += m[2]
                viol = not (abs(sval - 1.0) <= c06_lib.strehl_tolerance(cfg))
                if math.isfinite(sval):
                    res['nontrivial'] += 1
            if r[1] > 0:          # model and implementation disagree
                w = _confirm(cfg, rng)
                d = w or {'config': cfg['name'], 'params': cfg['params'], 'violates_property': False}
                d['model_disagrees'] = True
                if res is resC:
                    d['num_rays,grid_size'] = list(m[3])
                    if not w:      # the sweep of the oracle drew other samplings: re-run it on this one
                        bad = c06_lib.oracle(cfg, rng, wavefront=False, samplings=[m[3]])
                        if bad:
                            d = _witness(cfg, bad)
                            d['model_disagrees'] = True
                res['disagreements'].append(d)
            elif viol:            # they agree, and both violate the property
                w = _confirm(cfg, rng)
                if not w and res is resC:
                    bad = c06_lib.oracle(cfg, rng, wavefront=False, samplings=[m[3]])
                    w = _witness(cfg, bad) if bad else None
                res['disagreements'].append(w or {'config': cfg['name'], 'params': cfg['params'],
                                                  'violates_property': False,
                                                  'note': 'clause violated in the check but not reproduced by the oracle'})
        if meta_:
            m = meta_[0]
            res['samples'].append({'config': m[0]['name'], 'params': m[0]['params'],
                                   ('max_abs_waves' if res is resB else 'strehl'):
                                   (float(np.nanmax(np.abs(m[1]))) if res is resB else m[1])})
    yield resB
    yield resC

    # ---------- (D) configurations with a virtual image: ray-level clauses on the implementation ----------
    import random as _random
    resD = {'name': 'virtual-image-ray-clauses', 'n': 0, 'nontrivial': 0, 'samples': [], 'disagreements': [],
            'histogram': {'vignetted': 0, 'reached_by_edit_history': 0, 'immersed_in_medium_n!=1': 0,
                          'flat_surface_carried_conic': 0,
                          'plane_stop_in_contact_with_conic_vertex': 0}}
    rngD = _random.Random(ctx.seed * 977 + 6)
    # regression of the fixed finding conic-wrong-sheet: R = 11, k = -9/4, object at z = -22, NA 0.6 (the marginal
    # ray (0, 0.6, 0.8) must meet the vertex sheet after t = 55, not the second sheet after t = 5)
    reg = _wrong_sheet_regression_cfg()
    bad = c06_lib.oracle_virtual(reg, rngD, nr)
    resD['n'] += nr
    if not bad:
        o = c06_lib.build(reg)
        r = c06_lib.trace_pencil(o, [(0.0, 1.0)])[0]
        t = math.dist(r[0][:3], r[1][:3])
        if not abs(t - 55.0) <= 1e-9:
            bad = [{'kind': 'hit-on-other-sheet', 'pupil': [0.0, 1.0], 'hit': r[1][:3], 'launch_direction': r[0][3:6],
                    'distance': t, 'expected_distance': 55.0}]
    if bad:
        resD['disagreements'].append(_witness(reg, bad))
    else:
        resD['nontrivial'] += 1
    resD['histogram']['regression_cases'] = 1
    virt = c06_lib.corpus_virtual() + [c06_lib.gen_config(rngD, name) for name in c06_lib.VIRTUAL_CONFIGS
                                       for _ in range(ctx.n(10, 60))]
    virt += c06_lib.corpus_virtual_flat_carry()      # appended: the draws of the instances above stay as they were
    for cfg in virt:
        for _once in (0,):
            name = cfg['name']
            bad = c06_lib.prescription_check(cfg, c06_lib.build(cfg)) + c06_lib.oracle_virtual(cfg, rngD, nr)
            resD['n'] += nr
            resD['histogram']['vignetted'] += int(any(cfg.get('vignetting') or []))
            resD['histogram']['reached_by_edit_history'] += int(bool(cfg.get('edits')))
            resD['histogram']['flat_surface_carried_conic'] += int(bool(cfg.get('flat_carry')))
            resD['histogram']['immersed_in_medium_n!=1'] += int(cfg.get('medium_class', 'air') != 'air')
            resD['histogram']['plane_stop_in_contact_with_conic_vertex'] += int(bool(cfg.get('contact_stop')))
            if bad:
                resD['disagreements'].append(_witness(cfg, bad))
            else:
                resD['nontrivial'] += 1
            if not resD['samples']:
                resD['samples'].append({'config': name, 'params': cfg['params'], 'violations': bad})
    yield resD


def search(ctx, broken, disagreements):
    """the property stated directly on the implementation: seeded sweep over the closed-form configurations
    (image point, optical-path spread, Wavefront.data, FFTPSF Strehl); returns every violating instance"""
    insts, rng = _instances(ctx, ctx.n(6, 40), salt=1000)
    found = []
    import c06_lib
    for cfg in insts:
        w = _confirm(cfg, rng)
        if w:
            found.append(w)
            if len(found) >= 6:
                break
    for name in c06_lib.VIRTUAL_CONFIGS:
        for _ in range(ctx.n(10, 60)):
            cfg = c06_lib.gen_config(rng, name)
            bad = c06_lib.oracle_virtual(cfg, rng)
            if bad and len(found) < 10:
                found.append(_witness(cfg, bad))
    known = [f for f in __import__('vlib').load_known_findings(PROP)]
    found.sort(key=lambda w: any(matches_finding(w, f) for f in known))      # witnesses of no open finding first
    return found or None


# --------------------------------------------------------------------------------------------------
# known findings
# --------------------------------------------------------------------------------------------------
_FINDING_KINDS = {'image-direction-nan', 'wavefront-nan', 'strehl-nan'}


def matches_finding(w, f):
    """image-surface-refracts: ONLY an immersed-image configuration whose image surface is left with air behind
    it, whose marginal ray exceeds the critical angle there (n sin U' > 1), and whose every complaint is a NaN
    direction at the image surface or the NaN wavefront / Strehl that follows from it"""
    if f.get('status', 'open') != 'open':      # a fixed finding suppresses nothing: its recurrence is a regression
        return False
    if f.get('id') == 'conic-wrong-sheet':
        return _matches_wrong_sheet(w)
    if f.get('id') != 'image-surface-refracts':
        return False
    import c06_lib
    if w.get('config') not in c06_lib.IMMERSED or w.get('image_in_glass') is not False:
        return False
    ns = w.get('n_sin_u_image')
    if ns is None or not ns > 1.0:
        return False
    v = w.get('violations') or []
    return bool(v) and all(x.get('kind') in _FINDING_KINDS for x in v)


def _matches_wrong_sheet(w):
    """conic-wrong-sheet: ONLY a ray leaving the far focus of a convex hyperboloid mirror for which BOTH sheets are
    ahead and the second sheet is met closer (in z) to the vertex than the vertex sheet - recomputed here in closed
    form from the launch direction of the reported ray - and whose reported hit is that second-sheet point"""
    if w.get('config') != 'hyperboloid_far':
        return False
    v = w.get('violations') or []
    if len(v) != 1 or v[0].get('kind') != 'hit-on-other-sheet':
        return False
    try:
        R, e = w['params']['R'], w['params']['e']
        N = abs(v[0]['launch_direction'][2])
        zhit = v[0]['hit'][2]
    except (KeyError, TypeError, IndexError):
        return False
    if not (R > 0 and e > 1 and e * N > 1):          # the vertex sheet is met (ray below the asymptote angle)
        return False
    f2 = R / (1 - e)
    z_v = f2 + N * R / (e * N - 1)
    z_o = f2 + N * R / (1 + e * N)
    return abs(z_o) <= abs(z_v) and abs(zhit - z_o) <= 1e-9 * (abs(z_o) + abs(R))


REPLAY_WRONG_SHEET = {'name': 'hyperboloid_far', 'params': {'R': 11.0, 'e': 1.5, 'na': 0.6}, 'edits': [],
                      'vignetting': [0.0, 0.0], 'image_in_glass': None, 'scale': 100.0}

REPLAY_CFG = {
    'name': 'aplanat_immersed', 'image_in_glass': False, 'scale': 200.0,
    'params': {'nh': 1.6, 'Rh': -50.0, 'n': 3.0, 'epd': 30.0, 'd1': 5.0, 'gap': 20.0},
}


def _replay_cfg():
    import c06_lib
    p = REPLAY_CFG['params']
    fh = p['Rh'] / (1 - p['nh'])
    s = fh - p['gap']
    R1 = s / (1 + p['n'])
    s1 = R1 * (1 + p['n']) / p['n']
    surfs = [c06_lib._std(c06_lib.INF, p['d1'], ['ideal', p['nh'], 0.0], None, True),
             c06_lib._std(p['Rh'], p['gap'], 'air', -p['nh'] ** 2),
             c06_lib._std(R1, s1, ['ideal', p['n'], 0.0])]
    cfg = dict(REPLAY_CFG)
    cfg['spec'] = c06_lib._spec(c06_lib.INF, surfs, ['EPD', p['epd']], False)
    return cfg


def _wrong_sheet_regression_cfg():
    import c06_lib
    cfg = dict(REPLAY_WRONG_SHEET)
    R, e = cfg['params']['R'], cfg['params']['e']
    cfg['spec'] = c06_lib._spec(-R / (1 - e), [c06_lib._std(R, -22.0, 'mirror', -e * e, True)],
                                ['objectNA', 0.6], True)
    return cfg


def replay_finding(ctx, f):
    import random
    import c06_lib
    if f.get('id') == 'conic-wrong-sheet':
        # R = 11, e = 3/2 (k = -9/4), object at the far focus z = -22, ray (0, 3/5, 4/5): the vertex sheet is met at
        # z = +22 after t = 55, the second sheet at z = -18 after t = 5; the code returned t = 5 before dc4c87d
        cfg = _wrong_sheet_regression_cfg()
        R, e = cfg['params']['R'], cfg['params']['e']
        bad = c06_lib.oracle_virtual(cfg, random.Random(1))
        w = {'config': 'hyperboloid_far', 'params': cfg['params'], 'violations': bad}
        # below the regime (NA 0.3) the same mirror must be perfect
        cfg2 = dict(cfg)
        cfg2['spec'] = c06_lib._spec(-R / (1 - e), [c06_lib._std(R, -22.0, 'mirror', -e * e, True)],
                                     ['objectNA', 0.3], True)
        return _matches_wrong_sheet(w) and not c06_lib.oracle_virtual(cfg2, random.Random(1))
    if f.get('id') != 'image-surface-refracts':
        return None
    cfg = _replay_cfg()
    bad = c06_lib.oracle(cfg, random.Random(1))
    kinds = {b['kind'] for b in bad}
    # the same lens with the image surface declared inside the glass must be perfect
    cfg2 = dict(cfg)
    cfg2['image_in_glass'] = True
    ok2 = not c06_lib.oracle(cfg2, random.Random(1))
    return ('wavefront-nan' in kinds) and kinds <= _FINDING_KINDS and ok2


def broken_explained(b, known, witnesses):
    return False

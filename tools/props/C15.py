"""C15 - tolerancing reports true perturbed performance and restores the nominal lens."""
import json
import math
import os
import random

import vlib
from props.common import BASE_TRUSTED

PROP = 'C15'
KERNELS = ['c15_scalar_sample', 'c15_range_sample', 'c15_radius_scale', 'c15_radius_inverse_scale',
           'c15_thickness_scale', 'c15_thickness_inverse_scale', 'c15_index_scale', 'c15_index_inverse_scale',
           'c15_asphere_scale', 'c15_asphere_inverse_scale', 'c15_conic_scale', 'c15_conic_inverse_scale',
           'c15_tilt_scale', 'c15_tilt_inverse_scale', 'c15_decenter_scale', 'c15_decenter_inverse_scale',
           'c15_poly_scale', 'c15_poly_inverse_scale',
           'c15_get_thickness', 'c15_radius_get']
THEOREMS = None   # filled from Props/C15.v below
COQ_TARGETS = ['Model/M_C15.vo', 'Spec/S_C15.vo', 'Lemmas/L_C15.vo']
TRUSTED_BASE = BASE_TRUSTED + [
    'modelled, not verified: operand values are an opaque function ev(lens) (may be NaN); the optimiser is an arbitrary '
    'sequence of evaluation points (logged from scipy on every run), the lens is left at the last one',
    'modelled, not verified: the global NumPy random stream is a section variable (draw, seed_state); the harness checks '
    'that a seeded run consumes exactly RandomState(seed) in plan order',
    'store laws (set-set, set-get, commute) are HYPOTHESES of the abstract theorems; for the concrete lens model '
    '(including the position arithmetic of Optic.set_thickness) they are not proved, only validated by executing the model '
    'against the implementation on every run; proved over exact reals: scale/inverse_scale are mutually inverse; in binary64 '
    'inverse_scale(scale(v)) may differ from v by one ulp (observed), the harness compares with tolerance 1e-9',
    'solves and polynomial/Chebyshev coefficient variables are not in the concrete model (pickups are)',
]
RULE = ('classes in every run: compensator limits none/lower/upper/two-sided with perturbations driving the compensator against '
        'them (independent bounded reference), solve / thickness pickup / radius pickup depending on a compensator, boundary seeds; '
        'scenarios: seeded singlets/doublets (+plane window) with ideal and catalogue media, 1-3 wavelengths; perturbations on '
        'every variable type (radius conic thickness index asphere_coeff tilt decenter) with Scalar/Range/normal/uniform samplers, '
        '0-1 compensators (generic / least_squares), optional pickup, 1-8 trials, ray-failure and nominal-value perturbations; '
        'operand-set edits between analyses / manual compensations on one Tolerancing with a compensator (rows replayed with the '
        'operands active at that step); '
        'non-trivial = at least one finite operand value that differs from the nominal one')
PARTIAL = [
    'reset_restores / row_is_fresh / ends_nominal are proved for any lens type whose variable handles satisfy the store laws and '
    'whose Optic.update() satisfies update_laws (it only rewrites derived coordinates - pickup targets, solved thicknesses - as '
    'a function of the others, and the nominal lens is up to date); both sets of laws are hypotheses',
    'the store laws are not proved for the concrete lens (record fields and set_thickness arithmetic): they are hypotheses, '
    'validated by execution only; only the scale/inverse_scale round trip is proved (exact reals)',
    'nan_operand_row: that a failed ray yields NaN is a property of the operands (not modelled); independence of later rows is '
    'row_is_fresh',
]

HERE = os.path.dirname(os.path.abspath(__file__))
TOOLS = os.path.dirname(HERE)


def _theorems():
    import re
    p = os.path.join(vlib.COQ, 'Props', 'C15.v')
    if not os.path.exists(p):
        return []
    return re.findall(r'Print Assumptions\s+([A-Za-z0-9_\']+)\s*\.', open(p).read())


THEOREMS = _theorems()

INF = float('inf')
GLASSES = ['N-BK7', 'N-SF11', 'N-F2', 'N-LAK9', 'SF6', 'N-SK16']
WAVES = [0.4861, 0.5876, 0.6563]


# --------------------------------------------------------------------------
# kernel-level correspondence
# --------------------------------------------------------------------------
def kernel_cases(ctx):
    g = ctx.gen
    n = ctx.n(120, 1500)
    vals = [[g.uni(-500, 500)] for _ in range(n)] + [[0.0], [INF], [-INF], [float('nan')], [100.0], [-100.0]]
    yield 'c15_scalar_sample', vals, {'scalars': ['self.value']}
    rs = []
    for i in range(n):
        m = g.r.randint(1, 7)
        vs = [g.uni(-50, 50) for _ in range(m)]
        idx = g.r.randint(0, m + 1) if i % 3 else m     # idx == len: wrap-around branch
        rs.append([idx, vs])
    yield 'c15_range_sample', rs, {'arrays': ['self.values']}
    for k in ('radius', 'thickness', 'index', 'conic', 'tilt', 'decenter', 'poly'):
        yield f'c15_{k}_scale', vals, {'scalars': ['value']}
        yield f'c15_{k}_inverse_scale', vals, {'scalars': ['scaled_value']}
    asp = [[g.uni(-1, 1) * 10 ** g.r.randint(-12, 2), g.r.randint(0, 5)] for _ in range(n)]
    yield 'c15_asphere_scale', asp, {'scalars': ['value'], 'tol': 1e-15}
    yield 'c15_asphere_inverse_scale', asp, {'scalars': ['scaled_value'], 'tol': 1e-15}
    th = []
    for i in range(n):
        m = g.r.randint(2, 8)
        pos = [g.uni(-100, 100) for _ in range(m)]
        if i % 5 == 0:
            pos[0] = -INF
        th.append([g.r.randint(0, m - 2), pos])
    yield 'c15_get_thickness', th, {'arrays': ['self.positions'], 'plain_self': True}
    rg = []
    for i in range(n):
        m = g.r.randint(1, 8)
        rad = [g.uni(-300, 300) if g.r.random() < 0.8 else INF for _ in range(m)]
        rg.append([rad, g.r.randint(0, m - 1), bool(i % 2)])
    yield 'c15_radius_get', rg, {'arrays': ['self._surfaces.radii']}


# --------------------------------------------------------------------------
# scenario generation
# --------------------------------------------------------------------------
def gen_lens(r):
    """small refracting lens in lensgen format; returns (spec, info)"""
    surfs = []
    tmpl = r.choice(['singlet', 'singlet', 'doublet', 'window+singlet', 'asphere-singlet'])

    def medium():
        if r.random() < 0.45:
            return ['glass', r.choice(GLASSES), 'schott']
        return ['ideal', r.uniform(1.45, 1.85), 0.0]

    if tmpl.startswith('window'):
        surfs.append({'type': 'standard', 'radius': INF, 'thickness': r.uniform(1.5, 3.0), 'material': medium()})
        surfs.append({'type': 'standard', 'radius': INF, 'thickness': r.uniform(2.0, 5.0), 'material': 'air'})
    R1 = r.uniform(40, 90)
    if tmpl == 'asphere-singlet':
        surfs.append({'type': 'even_asphere', 'radius': R1, 'conic': r.choice([0.0, r.uniform(-1, 0.3)]),
                      'coefficients': [r.uniform(-1, 1) * 1e-6, r.uniform(-1, 1) * 1e-9][:r.choice([1, 2])],
                      'thickness': r.uniform(3, 7), 'material': medium()})
    else:
        s = {'type': 'standard', 'radius': R1, 'thickness': r.uniform(3, 7), 'material': medium()}
        if r.random() < 0.3:
            s['conic'] = r.uniform(-1.2, 0.4)
        surfs.append(s)
    if tmpl == 'doublet':
        surfs.append({'type': 'standard', 'radius': -r.uniform(40, 90), 'thickness': r.uniform(1.5, 3.5), 'material': medium()})
    last = {'type': 'standard', 'radius': r.choice([INF, -r.uniform(60, 200), -r.uniform(60, 200)]),
            'thickness': r.uniform(55, 110), 'material': 'air'}
    surfs.append(last)
    for i, s in enumerate(surfs):
        s['is_stop'] = (i == 0)
    nw = r.choice([1, 2, 3])
    ws = sorted(r.sample(WAVES, nw))
    pi = r.randrange(nw)
    finite = r.random() < 0.25
    spec = {'object_thickness': r.uniform(300, 900) if finite else INF, 'surfaces': surfs,
            'aperture': ['EPD', r.uniform(4, 9)], 'field_type': 'angle',
            'fields': [[0.0, 0.0, 0.0, 0.0]] + ([[r.uniform(1, 4), 0.0, 0.0, 0.0]] if r.random() < 0.5 else []),
            'wavelengths': [[w, j == pi] for j, w in enumerate(ws)], 'telecentric': False}
    return spec


def nominal_of(spec, h):
    """nominal value of a handle read from the spec (for choosing sample ranges only)"""
    s = spec['surfaces'][h['kw']['surface_number'] - 1]
    t = h['type']
    if t == 'radius':
        return s['radius']
    if t == 'conic':
        return s.get('conic', 0.0)
    if t == 'thickness':
        return s['thickness']
    if t == 'index':
        m = s['material']
        return m[1] if isinstance(m, list) and m[0] == 'ideal' else 1.6
    if t == 'asphere_coeff':
        return s['coefficients'][h['kw']['coeff_number']]
    if t in ('polynomial_coeff', 'chebyshev_coeff'):
        a, b = h['kw']['coeff_index']
        co = s['coefficients']
        return co[a][b] if a < len(co) and b < len(co[0]) else 0.0
    return 0.0


SPREAD = {'radius': None, 'conic': 0.1, 'thickness': 0.2, 'index': 0.004, 'asphere_coeff': 2e-7, 'tilt': 0.01, 'decenter': 0.1}


def candidate_handles(spec):
    out = []
    ns = len(spec['surfaces'])
    ws = [w for w, _ in spec['wavelengths']]
    for i in range(1, ns + 1):
        s = spec['surfaces'][i - 1]
        out.append({'type': 'radius', 'kw': {'surface_number': i}})
        if s['radius'] != INF:
            out.append({'type': 'conic', 'kw': {'surface_number': i}})
        out.append({'type': 'thickness', 'kw': {'surface_number': i}})
        if isinstance(s['material'], list):
            out.append({'type': 'index', 'kw': {'surface_number': i, 'wavelength': random.Random(i).choice(ws)}})
        if s['type'] == 'even_asphere':
            for j in range(len(s['coefficients'])):
                out.append({'type': 'asphere_coeff', 'kw': {'surface_number': i, 'coeff_number': j}})
        ax = random.Random(i * 31 + ns).choice(['x', 'y'])
        if i % 2:
            out.append({'type': 'tilt', 'kw': {'surface_number': i, 'axis': ax}})
        else:
            out.append({'type': 'decenter', 'kw': {'surface_number': i, 'axis': ax}})
    return out


def hkey(h):
    kw = h['kw']
    return (h['type'], kw['surface_number'], kw.get('coeff_number'), kw.get('axis'))


def gen_scenario(r, idx, analysis=None, force=None):
    spec = gen_lens(r)
    ns = len(spec['surfaces'])
    ws = [w for w, _ in spec['wavelengths']]
    prim = [w for w, p in spec['wavelengths'] if p][0]
    analysis = analysis or r.choice(['sens', 'mc'])
    cands = candidate_handles(spec)
    r.shuffle(cands)
    if force:
        pri = [h for h in cands if force(spec, h)]
        cands = pri + [h for h in cands if h not in pri]
    npert = r.choice([1, 1, 2, 3])
    perts = []
    used = set()
    for h in cands:
        if len(perts) >= npert:
            break
        if hkey(h) in used:
            continue
        # one index handle per surface (two wavelengths of the same glass share the recorded column name)
        used.add(hkey(h))
        nom = nominal_of(spec, h)
        sp = SPREAD[h['type']]
        if h['type'] == 'radius':
            lo, hi = (300.0, 900.0) if nom == INF else (nom * 0.96, nom * 1.04)
            if r.random() < 0.08 and nom != INF:
                lo, hi = 0.3 * spec['aperture'][1], nom       # ray failure: aperture larger than the sphere
        else:
            lo, hi = nom - sp, nom + sp
        lo, hi = min(lo, hi), max(lo, hi)
        if analysis == 'sens':
            sam = ['range', lo, hi, r.choice([2, 3, 4])]
        else:
            k = r.choice(['scalar', 'range', 'normal', 'uniform', 'normal', 'uniform'])
            seed = r.randrange(1, 10 ** 6) if r.random() < 0.85 else None
            if k == 'scalar':
                sam = ['scalar', r.uniform(lo, hi)]
            elif k == 'range':
                sam = ['range', lo, hi, r.choice([2, 3])]       # fewer steps than trials: wrap-around
            elif k == 'normal':
                sam = ['normal', (lo + hi) / 2, (hi - lo) / 6, seed]
            else:
                sam = ['uniform', lo, hi, seed]
        perts.append({'type': h['type'], 'kw': h['kw'], 'sampler': sam})
    comps = []
    if r.random() < 0.4:
        ch = r.choice([{'type': 'thickness', 'kw': {'surface_number': ns}},
                       {'type': 'radius', 'kw': {'surface_number': ns}},
                       {'type': 'conic', 'kw': {'surface_number': 1}}])
        # a scaled radius/conic compensator on a flat surface starts the optimiser at x0 = scale(inf) = inf
        # (scipy raises "array must not contain infs or NaNs"): not a valid tolerancing set-up, never generated
        flat = spec['surfaces'][ch['kw']['surface_number'] - 1]['radius'] == INF
        if hkey(ch) not in used and not (ch['type'] in ('conic', 'radius') and flat):
            comps.append(ch)
            used.add(hkey(ch))
    pickups = []
    if r.random() < 0.2 and ns >= 2 and spec['surfaces'][0]['radius'] != INF and spec['surfaces'][0]['type'] == 'standard':
        tgt = ns
        if ('radius', tgt, None, None) not in used and spec['surfaces'][tgt - 1]['radius'] != INF:
            pickups.append([1, 'radius', tgt, -r.uniform(1.0, 2.0), 0.0])
    ops = [['f2', {}]]
    if r.random() < 0.7:
        ops.append(['real_y_intercept', {'surface_number': -1, 'Hx': 0.0, 'Hy': 0.0, 'Px': 0.0, 'Py': 0.8, 'wavelength': prim}])
    if r.random() < 0.6:
        ops.append(['rms_spot_size', {'surface_number': -1, 'Hx': 0.0, 'Hy': 1.0 if len(spec['fields']) > 1 else 0.0,
                                      'num_rays': 3, 'wavelength': r.choice(['all', prim]), 'distribution': 'hexapolar'}])
    WS = sorted(set(ws + [0.45, 0.7] + [p['kw']['wavelength'] for p in perts + comps if p['type'] == 'index']))
    sc = {'name': f's{idx}', 'lens': spec, 'pickups': pickups, 'operands': ops, 'perts': perts, 'comps': comps,
          'method': r.choice(['generic', 'generic', 'least_squares']), 'tol': 1e-5, 'analysis': analysis,
          'trials': r.choice([1, 2, 3, 4, 5, 8]) if analysis == 'mc' else None, 'WS': WS}
    dist = [p for p in perts if p['sampler'][0] in ('normal', 'uniform')]
    sc['check_repro'] = (not dist) or any(p['sampler'][3] is not None for p in dist)
    return sc


def nominal_scenario(r, idx):
    """perturbation value == nominal value (clause 2)"""
    sc = gen_scenario(r, idx, analysis='mc')
    sc['comps'] = []
    sc['pickups'] = []
    for p in sc['perts']:
        nom = nominal_of(sc['lens'], p)
        if p['type'] == 'index' and not (isinstance(sc['lens']['surfaces'][p['kw']['surface_number'] - 1]['material'], list)
                                         and sc['lens']['surfaces'][p['kw']['surface_number'] - 1]['material'][0] == 'ideal'):
            p['sampler'] = ['scalar', None]      # filled by the harness? keep simple: drop
        else:
            p['sampler'] = ['scalar', nom]
    sc['perts'] = [p for p in sc['perts'] if p['sampler'][1] is not None] or sc['perts'][:0]
    if not sc['perts']:
        sc['perts'] = [{'type': 'thickness', 'kw': {'surface_number': 1}, 'sampler': ['scalar', sc['lens']['surfaces'][0]['thickness']]}]
    sc['trials'] = 2
    sc['nominal_clause'] = True
    sc['check_repro'] = True
    return sc


def two_lens(r):
    """two air-spaced positive singlets: the air gap (thickness 2) and the radii all move f2, so a gap / radius
    compensator really compensates and a solve / pickup can depend on it"""
    R1, R3 = r.uniform(45, 60), r.uniform(70, 95)
    gap = r.uniform(5.0, 8.0)
    surfs = [{'radius': R1, 'thickness': r.uniform(3, 5), 'material': ['ideal', r.uniform(1.48, 1.6), 0.0]},
             {'radius': -R1 * r.uniform(0.9, 1.1), 'thickness': gap, 'material': 'air'},
             {'radius': R3, 'thickness': r.uniform(2.5, 4), 'material': ['ideal', r.uniform(1.55, 1.7), 0.0]},
             {'radius': -R3, 'thickness': r.uniform(50, 70), 'material': 'air'}]
    return _lens(surfs, waves=((r.choice(WAVES), True),))


BOUND_KINDS = ['none', 'lower', 'upper', 'two-sided']


def bounded_scenario(r, idx, kind):
    """a compensator with every kind of limits, and perturbations that drive it against them (both directions)"""
    spec = two_lens(r)
    R1 = spec['surfaces'][0]['radius']
    gap = spec['surfaces'][1]['thickness']
    w = r.uniform(0.2, 0.45)               # well inside the excursion of the unconstrained optimum (about +-1 or more)
    bounds = {}
    if kind in ('lower', 'two-sided'):
        bounds['min_val'] = gap - w
    if kind in ('upper', 'two-sided'):
        bounds['max_val'] = gap + w * r.uniform(0.7, 1.3)
    analysis = r.choice(['sens', 'mc'])
    d = R1 * r.uniform(0.045, 0.06)        # moves the unconstrained optimum of the gap by several w, both ways
    # a RangeSampler in both analyses: its end points are always applied, so every declared limit becomes active
    sam = ['range', R1 - d, R1 + d, r.choice([3, 4]) if analysis == 'sens' else 3]
    return {'name': f'b{idx}-{kind}', 'lens': spec, 'pickups': [], 'solves': [], 'operands': [['f2', {}]],
            'perts': [{'type': 'radius', 'kw': {'surface_number': 1}, 'sampler': sam}],
            'comps': [{'type': 'thickness', 'kw': {'surface_number': 2}, 'bounds': bounds}],
            'method': r.choice(['generic', 'least_squares']), 'tol': 1e-5, 'analysis': analysis,
            'trials': 4 if analysis == 'mc' else None, 'WS': [0.45, 0.5876, 0.7], 'check_repro': True,
            'bounded_ref': True, 'ref_search': [0.2, 4.0 * gap], 'bound_kind': kind}


DEP_KINDS = ['solve', 'pickup-thickness', 'pickup-radius', 'pickup+solve']


def dependent_scenario(r, idx, dep):
    """a solve or a pickup whose value depends on a COMPENSATOR variable"""
    spec = two_lens(r)
    R1 = spec['surfaces'][0]['radius']
    gap = spec['surfaces'][1]['thickness']
    pickups, solves = [], []
    if dep == 'solve':
        comp = {'type': 'thickness', 'kw': {'surface_number': 2}}
        solves.append(['marginal_ray_height', 5, 0.0])          # paraxial image-distance solve
    elif dep == 'pickup-thickness':
        comp = {'type': 'thickness', 'kw': {'surface_number': 2}}
        pickups.append([2, 'thickness', 3, spec['surfaces'][2]['thickness'] / gap, 0.0])   # glass thickness follows the gap
    elif dep == 'pickup+solve':
        # BOTH: the pickup target (rear radius of the first lens, source = the perturbed front radius) feeds the image-
        # distance solve; a compensator makes the optimiser call Optic.update() at perturbed values
        spec['surfaces'][1]['radius'] = -spec['surfaces'][0]['radius']
        comp = r.choice([{'type': 'thickness', 'kw': {'surface_number': 2}}, {'type': 'thickness', 'kw': {'surface_number': 1}}])
        pickups.append([1, 'radius', 2, -1.0, 0.0])
        solves.append(['marginal_ray_height', 5, 0.0])
    else:
        comp = {'type': 'radius', 'kw': {'surface_number': 4}}
        pickups.append([4, 'radius', 3, -1.0, 0.0])             # symmetric second lens
    analysis = r.choice(['sens', 'mc'])
    d = R1 * r.uniform(0.01, 0.02)
    sam = ['range', R1 - d, R1 + d * r.uniform(1.2, 2.0), r.choice([2, 3])] if analysis == 'sens' \
        else ['normal', R1 + d, d / 3, r.randrange(0, 10 ** 6)]
    ops = [['f2', {}]]
    if dep == 'solve' and r.random() < 0.5:
        ops.append(['real_y_intercept', {'surface_number': -1, 'Hx': 0.0, 'Hy': 0.0, 'Px': 0.0, 'Py': 0.7,
                                         'wavelength': spec['wavelengths'][0][0]}])
    return {'name': f'd{idx}-{dep}', 'lens': spec, 'pickups': pickups, 'solves': solves, 'operands': ops,
            'perts': [{'type': 'radius', 'kw': {'surface_number': 1}, 'sampler': sam}], 'comps': [comp],
            'method': 'generic', 'tol': 1e-5, 'analysis': analysis, 'trials': 2 if analysis == 'mc' else None,
            'WS': [0.45, 0.5876, 0.7], 'check_repro': True, 'dependent': dep}


def asph_lens(r):
    """aspheric singlet with r^4, r^6 (and r^8) terms of realistic size: nominal 1e-6, 1e-8, 1e-11"""
    surfs = [{'type': 'even_asphere', 'radius': r.uniform(35, 55), 'conic': r.uniform(-0.8, 0.0),
              'coefficients': [0.0, r.uniform(0.5, 2) * 1e-6 * r.choice([-1, 1]), r.uniform(0.5, 2) * 1e-8 * r.choice([-1, 1]),
                               r.uniform(0.5, 2) * 1e-11], 'thickness': r.uniform(4, 6),
              'material': r.choice([['ideal', r.uniform(1.5, 1.7), 0.0], ['glass', r.choice(GLASSES), 'schott']])},
             {'radius': -r.uniform(150, 400), 'thickness': r.uniform(40, 70), 'material': 'air'}]
    spec = _lens(surfs, waves=((r.choice(WAVES), True),))
    spec['aperture'] = ['EPD', r.uniform(9, 12)]
    return spec


def tiny_scenario(r, idx, decade, htype):
    """perturbation of relative (absolute when the nominal is 0) size 10^-decade around the nominal value; operands on
    which the perturbation acts in first order (marginal real ray, spot size, focal length)"""
    spec = asph_lens(r)
    prim = spec['wavelengths'][0][0]
    kw = {'surface_number': 1}
    if htype == 'asphere_coeff':
        kw['coeff_number'] = r.choice([1, 2, 2, 3])
    elif htype == 'index':
        kw['wavelength'] = prim
        if spec['surfaces'][0]['material'][0] == 'glass':
            spec['surfaces'][0]['material'] = ['ideal', r.uniform(1.5, 1.7), 0.0]   # keep D23 out of this class
    elif htype in ('tilt', 'decenter'):
        kw['axis'] = r.choice(['x', 'y'])
    h = {'type': htype, 'kw': kw}
    nom = nominal_of(spec, h)
    m = 10.0 ** (-decade) * r.uniform(1, 5)
    d = abs(nom) * m if nom != 0 else m
    analysis = r.choice(['sens', 'mc'])
    if analysis == 'sens':
        sam = ['range', nom - d, nom + d * r.uniform(0.5, 1.0), r.choice([2, 3])]
    else:
        sam = r.choice([['uniform', nom - d, nom + d, r.randrange(0, 10 ** 6)], ['normal', nom, d / 2, r.randrange(0, 10 ** 6)],
                        ['scalar', nom + d]])
    ops = [['real_y_intercept', {'surface_number': -1, 'Hx': 0.0, 'Hy': 0.0, 'Px': 0.0, 'Py': 1.0, 'wavelength': prim}],
           ['rms_spot_size', {'surface_number': -1, 'Hx': 0.0, 'Hy': 0.0, 'num_rays': 3, 'wavelength': prim,
                              'distribution': 'hexapolar'}], ['f2', {}]]
    return {'name': f'e{idx}-{htype}-1e-{decade}', 'lens': spec, 'pickups': [], 'solves': [], 'operands': ops,
            'perts': [dict(h, sampler=sam)], 'comps': [], 'method': 'generic', 'tol': 1e-5, 'analysis': analysis,
            'trials': 2 if analysis == 'mc' else None, 'WS': sorted({0.45, 0.7, prim}), 'check_repro': True,
            'tiny': decade}


def partial_failure_scenario(r, idx, analysis):
    """a radius sweep whose short end makes PART of the beam fail (outer pupil ring beyond the sphere, inner rings
    through): ray operands of such a trial are undefined; polychromatic (wavelength='all') and explicit-wavelength spot
    operands, marginal and zonal real rays"""
    epd = r.uniform(7, 10)
    h = epd / 2
    R_nom = r.uniform(30, 50)
    R_fail = h * r.uniform(0.75, 0.95)        # 2/3 h < R_fail < h : the outer hexapolar ring misses the sphere
    ws = sorted(r.sample(WAVES, r.choice([2, 3])))
    pi = r.randrange(len(ws))
    spec = _lens([{'radius': R_nom, 'thickness': r.uniform(3, 5), 'material': r.choice([['ideal', r.uniform(1.5, 1.7), 0.0],
                                                                                       ['glass', r.choice(GLASSES), 'schott']])},
                  {'radius': r.choice([INF, -r.uniform(100, 300)]), 'thickness': r.uniform(40, 70), 'material': 'air'}],
                 waves=tuple((w, j == pi) for j, w in enumerate(ws)))
    spec['aperture'] = ['EPD', epd]
    prim = ws[pi]
    sam = ['range', R_fail, R_nom, r.choice([2, 3])] if analysis == 'sens' else r.choice([['range', R_fail, R_nom, 2], ['scalar', R_fail]])
    ops = [['rms_spot_size', {'surface_number': -1, 'Hx': 0.0, 'Hy': 0.0, 'num_rays': 3, 'wavelength': 'all', 'distribution': 'hexapolar'}],
           ['rms_spot_size', {'surface_number': -1, 'Hx': 0.0, 'Hy': 0.0, 'num_rays': 3, 'wavelength': prim, 'distribution': 'hexapolar'}],
           ['real_y_intercept', {'surface_number': -1, 'Hx': 0.0, 'Hy': 0.0, 'Px': 0.0, 'Py': 1.0, 'wavelength': prim}],
           ['real_y_intercept', {'surface_number': -1, 'Hx': 0.0, 'Hy': 0.0, 'Px': 0.0, 'Py': 0.5, 'wavelength': prim}],
           ['f2', {}]]
    return {'name': f'p{idx}-partial-failure-{analysis}', 'lens': spec, 'pickups': [], 'solves': [], 'operands': ops,
            'perts': [{'type': 'radius', 'kw': {'surface_number': 1}, 'sampler': sam}], 'comps': [], 'method': 'generic',
            'tol': 1e-5, 'analysis': analysis, 'trials': 2 if analysis == 'mc' else None, 'WS': sorted(set(ws + [0.45, 0.7])),
            'check_repro': True, 'partial_failure': True}


def int_coeff_scenario(r, idx, geom):
    """freeform surface whose coefficient array was entered with INTEGER entries (e.g. a zero array typed as 0)"""
    sc = freeform_scenario(r, idx, geom, 'inside')
    s0 = sc['lens']['surfaces'][0]
    nr, nc = len(s0['coefficients']), len(s0['coefficients'][0])
    s0['coefficients'] = [[0 for _ in range(nc)] for _ in range(nr)]
    p = sc['perts'][0]
    p['sampler'] = ['range', -0.004, 0.004, 2]
    sc['perts'] = [p]
    sc['analysis'], sc['trials'] = 'sens', None
    sc['name'] = f'i{idx}-{geom}-integer-coefficients'
    sc['int_coeffs'] = True
    sc['coeff_class'] = f'{geom}/integer-array'
    return sc


ROUTES = ['direct', 'handbuilt', 'reuse', 'roundtrip']


COEFF_KINDS = ['inside', 'row-outside', 'col-outside', 'both-outside']


def freeform_scenario(r, idx, geom, kind):
    """polynomial / Chebyshev front surface with a NON-SQUARE, fully populated coefficient array; the toleranced
    coeff_index lies inside the array or outside it in the row direction, the column direction or both"""
    nr, nc = r.choice([(3, 2), (2, 3), (4, 2), (2, 4), (3, 4)])
    if geom == 'polynomial':
        coefs = [[(r.uniform(0.3, 1) * r.choice([-1, 1]) * 10 ** (-2.5 - (a + b))) if a + b > 0 else 0.0
                  for b in range(nc)] for a in range(nr)]
        s0 = {'type': 'polynomial', 'coefficients': coefs}
    else:
        coefs = [[(r.uniform(0.3, 1) * r.choice([-1, 1]) * 10 ** (-2 - (a + b))) if a + b > 0 else 0.0
                  for b in range(nc)] for a in range(nr)]
        s0 = {'type': 'chebyshev', 'coefficients': coefs, 'norm_x': r.uniform(20, 40), 'norm_y': r.uniform(20, 40)}
    s0.update({'radius': r.uniform(45, 80), 'conic': r.choice([0.0, r.uniform(-0.8, 0.2)]), 'thickness': r.uniform(4, 6),
               'material': ['ideal', r.uniform(1.5, 1.7), 0.0]})
    spec = _lens([s0, {'radius': -r.uniform(120, 300), 'thickness': r.uniform(50, 80), 'material': 'air'}],
                 waves=((r.choice(WAVES), True),))
    spec['aperture'] = ['EPD', r.uniform(5, 7)]
    if kind == 'inside':
        ci = [r.randrange(nr), r.randrange(nc)]
        if ci == [0, 0]:
            ci = [nr - 1, nc - 1]
    elif kind == 'row-outside':
        ci = [nr + r.choice([0, 1]), r.randrange(nc)]
    elif kind == 'col-outside':
        ci = [r.randrange(1, nr), nc + r.choice([0, 1])]
    else:
        ci = [nr + r.choice([0, 1]), nc + r.choice([0, 1])]
    prim = spec['wavelengths'][0][0]
    vt = 'polynomial_coeff' if geom == 'polynomial' else 'chebyshev_coeff'
    nom = coefs[ci[0]][ci[1]] if ci[0] < nr and ci[1] < nc else 0.0
    d = 10 ** (-2.5 - min(ci[0] + ci[1], 4)) * r.uniform(0.2, 0.6)
    analysis = r.choice(['sens', 'mc'])
    if analysis == 'sens':
        sam = ['range', nom - d, nom + d, 3]
    else:
        sam = r.choice([['uniform', nom - d, nom + d, r.randrange(0, 10 ** 6)], ['range', nom - d, nom + d, 2]])
    perts = [{'type': vt, 'kw': {'surface_number': 1, 'coeff_index': ci}, 'sampler': sam}]
    if r.random() < 0.5:
        perts.append({'type': 'thickness', 'kw': {'surface_number': 1}, 'sampler': ['range', s0['thickness'] - 0.05, s0['thickness'] + 0.05, 2]})
    ops = [['real_y_intercept', {'surface_number': -1, 'Hx': 0.0, 'Hy': 0.0, 'Px': 0.5, 'Py': 0.7, 'wavelength': prim}],
           ['real_x_intercept', {'surface_number': -1, 'Hx': 0.0, 'Hy': 0.0, 'Px': -0.6, 'Py': 0.3, 'wavelength': prim}],
           ['rms_spot_size', {'surface_number': -1, 'Hx': 0.0, 'Hy': 0.0, 'num_rays': 3, 'wavelength': prim, 'distribution': 'hexapolar'}]]
    return {'name': f'f{idx}-{geom}-{kind}', 'lens': spec, 'pickups': [], 'solves': [], 'operands': ops, 'perts': perts,
            'comps': [], 'method': 'generic', 'tol': 1e-5, 'analysis': analysis, 'trials': 3 if analysis == 'mc' else None,
            'WS': sorted({0.45, 0.7, prim}), 'check_repro': True, 'coeff_class': f'{geom}/{kind}',
            'c2shape': [max(nr, ci[0] + 1), max(nc, ci[1] + 1)]}


def freeform_nominal_scenario(r, idx, geom, kind):
    """the same classes with a perturbation EQUAL to the nominal value (0 outside the stored array)"""
    sc = freeform_scenario(r, idx, geom, kind)
    p = sc['perts'][0]
    ci = p['kw']['coeff_index']
    co = sc['lens']['surfaces'][0]['coefficients']
    nom = co[ci[0]][ci[1]] if ci[0] < len(co) and ci[1] < len(co[0]) else 0.0
    p['sampler'] = ['scalar', nom]
    sc['perts'] = [p]
    sc['analysis'], sc['trials'] = 'mc', 2
    sc['nominal_clause'] = True
    sc['name'] += '-nominal'
    return sc


def asphere_beyond_scenario(r, idx):
    """asphere_coeff index beyond the stored coefficient list: optiland refuses to register it (IndexError); the lens must
    be left untouched.  (Should a later version pad the list instead, the ordinary clauses apply.)"""
    spec = asph_lens(r)
    n = len(spec['surfaces'][0]['coefficients'])
    prim = spec['wavelengths'][0][0]
    return {'name': f'a{idx}-asphere-beyond-list', 'lens': spec, 'pickups': [], 'solves': [],
            'operands': [['real_y_intercept', {'surface_number': -1, 'Hx': 0.0, 'Hy': 0.0, 'Px': 0.0, 'Py': 1.0, 'wavelength': prim}]],
            'perts': [{'type': 'asphere_coeff', 'kw': {'surface_number': 1, 'coeff_number': n + r.choice([0, 1])},
                       'sampler': ['range', -1e-13, 1e-13, 2]}], 'comps': [], 'method': 'generic', 'tol': 1e-5,
            'analysis': 'sens', 'trials': None, 'WS': sorted({0.45, 0.7, prim}), 'check_repro': False,
            'expect_setup_error': True, 'coeff_class': 'asphere/beyond-list'}


HISTORIES = ['mc-then-sens', 'sens-twice', 'advance-then-sens', 'mc-twice', 'shared-sens', 'shared-mc']


def history_scenario(r, idx, kind):
    """several analyses / hand-advanced or shared samplers on ONE Tolerancing object; every row of every analysis is
    replayed on a fresh nominal lens"""
    spec = two_lens(r)
    R1 = spec['surfaces'][0]['radius']
    g = spec['surfaces'][1]['thickness']
    n1, n2 = r.choice([3, 4, 5]), r.choice([3, 4])
    perts = [{'type': 'radius', 'kw': {'surface_number': 1}, 'sampler': ['range', R1 * 0.97, R1 * 1.04, n1]},
             {'type': 'thickness', 'kw': {'surface_number': 2}, 'sampler': ['range', g - 0.3, g + 0.2, n2]}]
    comps = [{'type': 'radius', 'kw': {'surface_number': 4}}] if r.random() < 0.35 else []
    sc = {'name': f'h{idx}-{kind}', 'lens': spec, 'pickups': [], 'solves': [], 'operands': [['f2', {}]], 'perts': perts,
          'comps': comps, 'method': 'generic', 'tol': 1e-5, 'WS': [0.45, 0.5876, 0.7], 'check_repro': True, 'history_kind': kind}
    k = r.choice([x for x in range(1, 7) if x % n1 and x % n2])       # leaves both samplers in mid-cycle
    if kind == 'mc-then-sens':
        sc['history'] = [['mc', k], ['sens']]
    elif kind == 'sens-twice':
        sc['history'] = [['sens'], ['sens']]
    elif kind == 'advance-then-sens':
        sc['history'] = [['advance', r.choice([0, 1]), r.choice([1, 2])], ['sens']]
    elif kind == 'mc-twice':
        sc['history'] = [['mc', k], ['mc', r.choice([1, 2, 3])]]
    else:
        # ONE RangeSampler object for both perturbations (values suit the radius; applied to the thickness of a
        # thick surface they are still a valid prescription): radius of surface 1 and of surface 3
        perts[1] = {'type': 'radius', 'kw': {'surface_number': 3}, 'sampler': perts[0]['sampler']}
        sc['share'] = [[0, 1]]
        sc['history'] = [['sens']] if kind == 'shared-sens' else [['mc', r.choice([2, 4, 5])]]
    last = sc['history'][-1]
    sc['analysis'] = last[0]
    sc['trials'] = last[1] if last[0] == 'mc' else None
    return sc


OPEDIT_KINDS = ['mc-addop-mc', 'sens-addop-sens', 'compensate-addop-mc', 'addop-before-first-run', 'mc-addop-sens']


def operand_edit_scenario(r, idx, kind):
    """the OPERAND SET of one Tolerancing object (with a compensator) is edited between public calls: an analysis (or a
    manual apply_compensators()) is performed, further operands are registered, a new analysis is run on the same object.
    Every row is replayed on a fresh nominal lens with the operands active at that step of the plan and the same
    compensation; the added operand is chosen so that it moves the compensated optimum (counted in the histogram)."""
    spec = two_lens(r)
    R1 = spec['surfaces'][0]['radius']
    prim = spec['wavelengths'][0][0]
    yint = ['real_y_intercept', {'surface_number': -1, 'Hx': 0.0, 'Hy': 0.0, 'Px': 0.0, 'Py': r.choice([0.7, 1.0]), 'wavelength': prim}]
    rms = ['rms_spot_size', {'surface_number': -1, 'Hx': 0.0, 'Hy': 0.0, 'num_rays': 3, 'wavelength': prim, 'distribution': 'hexapolar'}]
    # (operands registered first, operands registered later, compensator): the later operand depends on the compensator
    # in a way the earlier ones do not fix
    first, late, comp = r.choice([
        ([['f2', {}]], [yint], {'type': 'thickness', 'kw': {'surface_number': 4}}),      # image distance: f2 does not see it
        ([['f2', {}]], [yint], {'type': 'thickness', 'kw': {'surface_number': 2}}),
        ([['f2', {}]], [yint, rms], {'type': 'radius', 'kw': {'surface_number': 4}}),
        ([yint], [['f2', {}]], {'type': 'thickness', 'kw': {'surface_number': 2}}),
        ([['f2', {}]], [rms], {'type': 'thickness', 'kw': {'surface_number': 4}})])
    ops = first + late
    d = R1 * r.uniform(0.02, 0.04)
    n1 = r.choice([2, 3])
    perts = [{'type': 'radius', 'kw': {'surface_number': 1}, 'sampler': ['range', R1 - d, R1 + d * r.uniform(0.6, 1.0), n1]}]
    sc = {'name': f'o{idx}-{kind}', 'lens': spec, 'pickups': [], 'solves': [], 'operands': ops, 'ops_initial': len(first),
          'perts': perts, 'comps': [comp], 'method': 'generic', 'tol': 1e-5, 'WS': sorted({0.45, 0.7, prim}),
          'check_repro': True, 'opedit_kind': kind}
    add = ['addop', len(ops)]
    if kind == 'mc-addop-mc':
        sc['history'] = [['mc', r.choice([1, 2])], add, ['mc', n1]]
    elif kind == 'sens-addop-sens':
        sc['history'] = [['sens'], add, ['sens']]
    elif kind == 'mc-addop-sens':
        sc['history'] = [['mc', n1], add, ['sens']]
    elif kind == 'compensate-addop-mc':
        sc['history'] = [['compensate'], add, ['mc', n1]]
    else:
        sc['history'] = [add, ['sens']]            # registered after the perturbations / compensators, before any run
    last = sc['history'][-1]
    sc['analysis'] = last[0]
    sc['trials'] = last[1] if last[0] == 'mc' else None
    return sc


def class_scenarios(ctx, seed_off=0):
    """the input classes every run (quick tier included) must exercise"""
    r = random.Random(ctx.seed * 104723 + 17 + seed_off)
    out = [bounded_scenario(r, i, k) for i, k in enumerate(BOUND_KINDS)]
    out += [dependent_scenario(r, i, k) for i, k in enumerate(DEP_KINDS)]
    # perturbation magnitudes over the decades 1e-1 ... 1e-12 (two per handle type, one small and one very small; always a
    # high-order aspheric coefficient ~1e-8 +- 1e-9 and an index +-1e-5)
    out.append(tiny_scenario(r, 0, 1, 'asphere_coeff'))
    out.append(tiny_scenario(r, 1, 5, 'index'))
    types = ['asphere_coeff', 'index', 'radius', 'thickness', 'conic', 'tilt', 'decenter']
    for i, t in enumerate(types):
        out.append(tiny_scenario(r, 2 + i, r.choice([2, 3, 4, 6, 7, 8, 9, 10, 11, 12]), t))
    # histories on one Tolerancing object
    out += [history_scenario(r, i, k) for i, k in enumerate(HISTORIES)]
    # freeform coefficient arrays: every index class for both geometry classes; nominal-value perturbations on the classes
    # that grow the array; an asphere index beyond the stored list
    for gi, geom in enumerate(('polynomial', 'chebyshev')):
        for ki, kind in enumerate(COEFF_KINDS):
            out.append(freeform_scenario(r, gi * 4 + ki, geom, kind))
    out.append(freeform_nominal_scenario(r, 8, r.choice(['polynomial', 'chebyshev']), 'col-outside'))
    out.append(freeform_nominal_scenario(r, 9, r.choice(['polynomial', 'chebyshev']), r.choice(['both-outside', 'row-outside', 'inside'])))
    out.append(asphere_beyond_scenario(r, 10))
    out.append(int_coeff_scenario(r, 11, r.choice(['polynomial', 'chebyshev'])))
    # perturbations that make PART of the beam fail
    out.append(partial_failure_scenario(r, 0, 'sens'))
    out.append(partial_failure_scenario(r, 1, 'mc'))
    # every class reaches its Optic object through each public route in turn (fixed assignment, not random)
    for i, sc in enumerate(out):
        sc['route'] = ROUTES[(i + ctx.seed) % 4]
        sc['route_seed'] = ctx.seed * 31 + i
    # the operand set is edited between analyses on one Tolerancing object with a compensator (own stream: fixed corpus)
    r2 = random.Random(ctx.seed * 7243 + 5 + seed_off)
    for i, k in enumerate(OPEDIT_KINDS):
        sc = operand_edit_scenario(r2, i, k)
        sc['route'] = ROUTES[(i + ctx.seed) % 4]
        sc['route_seed'] = ctx.seed * 37 + i
        out.append(sc)
    if not ctx.quick():
        for i in range(20, 80):
            out.append(tiny_scenario(r, i, 1 + i % 12, types[i % 7]))
            out.append(history_scenario(r, i, HISTORIES[i % 6]))
            out.append(freeform_scenario(r, i, ('polynomial', 'chebyshev')[i % 2], COEFF_KINDS[(i // 2) % 4]))
            if i % 3 == 0:
                out.append(freeform_nominal_scenario(r, i, ('polynomial', 'chebyshev')[i % 2], COEFF_KINDS[(i // 2) % 4]))
        for i in range(4, 24):
            out.append(bounded_scenario(r, i, BOUND_KINDS[i % 4]))
            out.append(dependent_scenario(r, i, DEP_KINDS[i % 3]))
    return out


def scenarios(ctx, n, seed_off=0):
    r = random.Random(ctx.seed * 7919 + seed_off)
    out = []
    for i in range(n):
        if i % 9 == 8:
            out.append(nominal_scenario(r, i))
        else:
            out.append(gen_scenario(r, i))
        out[-1]['route'] = ROUTES[(i + 1) % 4]
        out[-1]['route_seed'] = ctx.seed * 17 + i
    return out


def run_impl(scs, timeout=900):
    script = open(os.path.join(TOOLS, 'c15_impl.py')).read()
    return vlib.run_python(script, {'scenarios': scs, 'tools': TOOLS}, timeout=timeout)


# --------------------------------------------------------------------------
# Coq rendering of one scenario + the data observed on the implementation
# --------------------------------------------------------------------------
fh = vlib.fhex
HK = {'radius': 'HRadius', 'conic': 'HConic', 'thickness': 'HThick', 'index': 'HIndex', 'asphere_coeff': 'HAsph'}
CHECKS = ['m_trial_states', 'm_values', 'm_comp', 'm_after_run', 'm_after_reset', 'm_init',
          'p_run_ends_nominal', 'p_reset_restores', 'p_rows_fresh_state', 'm_nrows']


def fl(xs):
    return '[' + '; '.join(fh(x) for x in xs) + ']'


def coq_handle(h, scaled):
    t = h['type']
    kw = h['kw']
    if t == 'tilt':
        k = 'HTiltX' if kw['axis'] == 'x' else 'HTiltY'
    elif t == 'decenter':
        k = 'HDecX' if kw['axis'] == 'x' else 'HDecY'
    elif t in ('polynomial_coeff', 'chebyshev_coeff'):
        k = 'HPoly'
    else:
        k = HK[t]
    j, j2 = kw.get('coeff_number', 0), 0
    if k == 'HPoly':
        j, j2 = kw['coeff_index']
    return (f'(mkH (O:=FOps) {k} {vlib.zlit(kw["surface_number"])} {vlib.zlit(j)} '
            f'{fh(kw.get("wavelength", 0.0))} {"true" if scaled else "false"} {vlib.zlit(j2)})')


def c2_rows(s):
    """the 2-D coefficient window of a snapshot as a Coq list of rows"""
    c2 = s.get('c2') or []
    if not c2:
        return '[]'
    R, C = C2SHAPE
    body = c2[:R * C]
    return '[' + '; '.join(fl(body[a * C:(a + 1) * C]) for a in range(R)) + ']'


C2SHAPE = [0, 0]


def coq_snapshot(snap, pickups):
    ss = []
    for s in snap:
        kind = ['GPlane', 'GStd', 'GOther'][s['kind']]
        med = (f'(MIdeal (O:=FOps) {fh(s["med"][1])} {fh(s["med"][2])})' if s['med'][0] == 'ideal'
               else f'(MGlass (O:=FOps) {int(s["med"][1])}%nat)')
        ss.append(f'(mkS (O:=FOps) {kind} {fh(s["rad"])} {fh(s["con"])} {fh(s["z"])} {fh(s["dx"])} {fh(s["dy"])} '
                  f'{fh(s["rx"])} {fh(s["ry"])} {fl(s["cf"])} {med} {c2_rows(s)})')
    pk = []
    for (src, attr, tgt, scale, off) in pickups:
        a = {'radius': 'PRadius', 'conic': 'PConic', 'thickness': 'PThick'}[attr]
        pk.append(f'(mkP (O:=FOps) {vlib.zlit(src)} {a} {vlib.zlit(tgt)} {fh(scale)} {fh(off)})')
    return '(mkL (O:=FOps) [' + ';\n   '.join(ss) + '] [' + '; '.join(pk) + '])'


def snap_vec(snap):
    v = []
    for s in snap:
        v += [s['kind'], s['rad'], s['con'], s['z'], s['dx'], s['dy'], s['rx'], s['ry']] + s['cf']
        c2 = s.get('c2') or []
        v += c2[:-1] if c2 else [0.0] * (C2SHAPE[0] * C2SHAPE[1])
        v += [0.0 if s['med'][0] == 'ideal' else 1.0] + s['nws']
    return v


def coq_body(sc, r):
    WS = sc['WS']
    C2SHAPE[0], C2SHAPE[1] = sc.get('c2shape', [0, 0])
    L = []
    # catalogue glasses: table over the wavelengths that are ever asked
    arms = []
    for gid, ns in sorted(r['glass'].items(), key=lambda kv: int(kv[0])):
        e = 'nan'
        for w, n in reversed(list(zip(WS, ns))):
            e = f'(if w =? {fh(w)} then {fh(n)} else {e})'
        arms.append(f'| {int(gid)}%nat => {e}')
    L.append('Definition gn (id : nat) (w : float) : float := match id with ' + ' '.join(arms) + ' | _ => nan end.')
    L.append(f'Definition ws : list float := {fl(WS)}.')
    L.append('Definition l0 : clens (O:=FOps) := ' + coq_snapshot(r['nominal'], sc['pickups']) + '.')
    L.append('Definition hp : list (handle (O:=FOps)) := [' + '; '.join(coq_handle(p, False) for p in sc['perts']) + '].')
    L.append('Definition hc : list (handle (O:=FOps)) := [' + '; '.join(coq_handle(c, True) for c in sc['comps']) + '].')
    L.append('Definition vg := cget (O:=FOps) gn.  Definition vs := cset (O:=FOps).  Definition up := cupd (O:=FOps) gn.')
    L.append(f'Definition evf := lens_vec (O:=FOps) gn ws ({C2SHAPE[0]}%nat, {C2SHAPE[1]}%nat).')
    L.append('Definition pv := map (mkvar vg l0) hp.  Definition cv := map (mkvar vg l0) hc.')
    L.append('Definition drw (g : list float) (_ : unit) : option (float * list float) := '
             'match g with v :: g\' => Some (v, g\') | [] => None end.')
    sams = []
    for p in sc['perts']:
        sp = p['sampler']
        if sp[0] == 'scalar':
            sams.append(f'SScalar (O:=FOps) unit {fh(sp[1])}')
        elif sp[0] == 'range':
            sams.append(f'SRange (O:=FOps) unit (linspace_ (O:=FOps) {fh(sp[1])} {fh(sp[2])} {vlib.zlit(sp[3])}) 0%Z')
        else:
            sams.append('SDist (O:=FOps) tt')
    L.append('Definition sams0 : list (sampler (O:=FOps) unit) := [' + '; '.join(sams) + '].')
    stream = r.get('stream')
    if stream is None:
        # no seeded distribution sampler: the stream is whatever NumPy's global state held; use the recorded draws
        stream = []
        for tr in r['trials']:
            for j, v in zip(tr['which'], tr['values']):
                if sc['perts'][j]['sampler'][0] in ('normal', 'uniform'):
                    stream.append(v)
    L.append(f'Definition s0 := mkSt l0 sams0 ({fl(stream)} : list float).')
    traces = '[' + ';\n  '.join('[' + '; '.join(fl(x) for x in tr['trace']) + ']' for tr in r['trials']) + ']'
    L.append(f'Definition traces : list (list (list float)) := {traces}.')
    # the model follows the declared state of the tree: once finding mc-no-final-reset is flipped to fixed
    # (proposed_fixes/C15-mc-no-final-reset.diff applied) MonteCarlo.run is modelled by mc_run_fixed
    mc_open = any(k['id'] == 'mc-no-final-reset' for k in vlib.load_known_findings(PROP))
    # history on ONE Tolerancing object: the machine state (lens, sampler indices, stream) is threaded through the steps
    L.append("""Definition ST := st (O:=FOps) (clens (O:=FOps)) (list float) unit.
Definition adv1 (j : nat) (s : ST) : ST :=
  match nth_error (sams s) j with
  | Some sm => match sample (O:=FOps) drw (rng s) sm with
               | Some (_, sm', g') => mkSt (lens s) (set_nth (sams s) j sm') g'
               | None => s end
  | None => s end.
Fixpoint adv (j n : nat) (s : ST) : ST := match n with 0%nat => s | S n' => adv j n' (adv1 j s) end.""")
    body = 'Some (s, rows, aok)'
    pos = len(r['trials'])
    steps = list(zip(history_of(sc), r['steps']))
    defs = []
    for k in range(len(steps) - 1, -1, -1):
        st, info = steps[k]
        if st[0] == 'advance':
            body = f'let s := adv {st[1]}%nat {st[2]}%nat s in\n  {body}'
            continue
        if st[0] in ('addop', 'compensate'):
            continue        # no effect on the machine state (lens, samplers, stream); operands are not in the model
        n = info['n']
        trs = r['trials'][pos - n:pos]
        pos -= n
        defs.append(f'Definition traces_{k} : list (list (list float)) := [' +
                    ';\n  '.join('[' + '; '.join(fl(x) for x in tr['trace']) + ']' for tr in trs) + '].')
        defs.append(f'Definition i_after_{k} : list float := {fl(snap_vec(info["after_run"]))}.')
        fn = ('mc_run' if mc_open else 'mc_run_fixed') if st[0] == 'mc' else 'sens_run'
        body = (f'match {fn} vg vs up evf drw pv cv traces_{k} s with None => None | Some (s, r) =>\n'
                f'  let rows := rows ++ r in let aok := aok && close_list tolS (evf (lens s)) i_after_{k} in\n  {body} end')
    tol_s = '0x1.12e0be826d695p-30' if sc['comps'] else '0x1.c25c268497682p-44'     # 1e-9 with compensators, 1e-13 without
    L.append(f'Definition tolS := {tol_s}.')
    L += defs
    L.append('Definition res := let s := s0 in let rows : list (row (O:=FOps)) := [] in let aok := true in\n  ' + body + '.')
    ana = [k for k, (st, info) in enumerate(steps) if st[0] in ('mc', 'sens')]
    p_steps = 'Definition p_steps_nominal := ' + ' && '.join(f'close_list tolS i_after_{k} i_nominal' for k in ana) + '.'
    # implementation data
    L.append('Definition i_states : list (list float) := [' + ';\n  '.join(fl(snap_vec(tr['snap'])) for tr in r['trials']) + '].')
    L.append('Definition i_values : list (list float) := [' + '; '.join(fl(tr['values']) for tr in r['trials']) + '].')
    L.append('Definition i_which : list (list nat) := [' + '; '.join('[' + '; '.join(f'{j}%nat' for j in tr['which']) + ']' for tr in r['trials']) + '].')
    L.append('Definition i_comp : list (list float) := [' + '; '.join(fl(tr['comp']) for tr in r['trials']) + '].')
    L.append(f'Definition i_nominal := {fl(snap_vec(r["nominal"]))}.')
    L.append(f'Definition i_after_run := {fl(snap_vec(r["after_run"]))}.')
    L.append(f'Definition i_after_reset := {fl(snap_vec(r["after_reset"]))}.')
    L.append(f'Definition i_init : list float := {fl(r["pert_init"] + r["comp_init"])}.')
    L.append(p_steps)
    L.append(r'''
Definition tolV := 0x1.19799812dea11p-40.   (* 1e-12 *)
Fixpoint all2 {A B} (f : A -> B -> bool) (a : list A) (b : list B) : bool :=
  match a, b with [] , [] => true | x :: a', y :: b' => f x y && all2 f a' b' | _, _ => false end.
Definition nat_list_eqb (a b : list nat) := all2 Nat.eqb a b.
Definition fresh_ok :=
  all2 (fun st wx => let '(w, x, tr) := wx in
          close_list tolS st (evf (fresh_lens vs up pv cv l0 w x tr)))
       i_states (combine (combine i_which i_values) traces).
Definition checks : list bool :=
  let p6 := close_list tolS i_after_run i_nominal && p_steps_nominal in
  let p7 := close_list tolS i_after_reset i_nominal in
  match res with
  | None => [false; false; false; false; false; false; p6; p7; fresh_ok; false]
  | Some (sf, rows, aok) =>
    [ all2 (fun (rw : row (O:=FOps)) st => close_list tolS (r_ops rw) st) rows i_states;
      all2 (fun (rw : row (O:=FOps)) v => close_list tolV (r_pert rw) v) rows i_values && all2 (fun (rw : row (O:=FOps)) w => nat_list_eqb (r_which rw) w) rows i_which;
      all2 (fun (rw : row (O:=FOps)) c => close_list tolS (r_comp rw) c) rows i_comp;
      close_list tolS (evf (lens sf)) i_after_run && aok;
      close_list tolS (evf (treset vs up pv cv (lens sf))) i_after_reset;
      close_list tolV (map (@vinit _ _) (pv ++ cv)) i_init;
      p6; p7; fresh_ok;
      Nat.eqb (List.length rows) (List.length i_states) ]
  end.
Eval vm_compute in (report checks).
''')
    return '\n'.join(L)


def classify(sc, r, failing):
    """failing: names of failed checks.  Returns (model_disagreements, property_witnesses)"""
    wit = []
    dis = []
    handles = [{'type': h['type'], 'kw': h['kw'], 'role': role}
               for role, hs in (('pert', sc['perts']), ('comp', sc['comps'])) for h in hs]
    base = {'scenario': sc, 'analysis': sc['analysis']}
    for c in failing:
        if c == 'p_run_ends_nominal':
            wit.append(dict(base, check=c, diff=r['diff_run'], violates_property=True,
                            detail='lens prescription after run() differs from the nominal prescription'))
        elif c == 'p_reset_restores':
            wit.append(dict(base, check=c, diff=r['diff_reset'], violates_property=True,
                            detail='lens prescription after run(); reset() differs from the nominal prescription'))
        elif c == 'p_rows_fresh_state':
            # state-level: confirmed on the implementation only if the row values disagree too (below) or the
            # state at evaluation differs in a way to_dict() exposes; report as a property witness with the rows
            bad = [i for i, e in enumerate(r.get('oracle', [])) if not e['ok']]
            sd = sorted({tuple(x) for e in r.get('oracle', []) for x in e.get('state_diff', [])})
            wit.append(dict(base, check=c, rows=bad[:5], violates_property=True, diff=[list(x) for x in sd],
                            explained=sorted({tuple(r['oracle'][i].get('explained') or ['?']) for i in bad}) if bad else [],
                            state_only=not bad,
                            detail='lens state at evaluation differs from fresh_lens(nominal, recorded values, same compensation)'))
        else:
            dis.append(dict(base, check=c, violates_property=False, detail='model and implementation disagree'))
    return dis, wit


def python_level_checks(sc, r):
    """property clauses stated directly on the implementation's outputs (no Coq): returns list of witness dicts"""
    out = []
    base = {'scenario': sc, 'analysis': sc['analysis']}
    bad = [i for i, e in enumerate(r.get('oracle', [])) if not e['ok']]
    if bad:
        out.append(dict(base, check='row_fresh', rows=bad[:5], violates_property=True,
                        explained=sorted({tuple(r['oracle'][i].get('explained') or ['?']) for i in bad}),
                        detail=f'recorded operand values {r["trials"][bad[0]]["row_ops"]} != fresh evaluation '
                               f'{r["oracle"][bad[0]]["fresh"]} (trial {bad[0]})'
                               + (f'; history on one Tolerancing object {sc["history"]} with operands {[o[0] for o in sc["operands"]]}, '
                                  f'the first {sc["ops_initial"]} registered at set-up, compensator {sc["comps"][0]["type"]} '
                                  f'{sc["comps"][0]["kw"]}; the replay compensates against the operands active at that step'
                                  if sc.get('opedit_kind') else '')))
    if r['diff_run']:
        out.append(dict(base, check='p_run_ends_nominal', diff=r['diff_run'], violates_property=True,
                        detail='lens after run() differs from nominal'))
    if r['diff_reset']:
        out.append(dict(base, check='p_reset_restores', diff=r['diff_reset'], violates_property=True,
                        detail='lens after reset() differs from nominal'))
    if sc.get('check_repro') and (r.get('repro') is False or r.get('repro2') is False):
        out.append(dict(base, check='reproducible', violates_property=True,
                        detail='two identical seeded runs produced different tables'))
    if sc.get('nominal_clause'):
        for ti, tr in enumerate(r['trials']):
            if not all(_close(a, b, 1e-9) for a, b in zip(tr['row_ops'], r['ops_built'])):
                nd = r['oracle'][ti].get('nominal_diff', []) if ti < len(r.get('oracle', [])) else []
                out.append(dict(base, check='nominal_value', violates_property=True, diff=nd,
                                detail=f'perturbation equal to nominal gives {tr["row_ops"]} != nominal {r["ops_built"]}'))
                break
    # registering perturbations / compensators must not change the lens (zero padding of a coefficient array apart) ...
    if r.get('setup_diff'):
        out.append(dict(base, check='setup_changes_lens', violates_property=True, diff=r['setup_diff'],
                        detail=f'the lens right after add_perturbation/add_compensator differs from the built nominal lens at {r["setup_diff"][:4]}'))
    if not all(_close(a, b, 1e-12) for a, b in zip(r.get('ops_nominal', []), r.get('ops_built', []))):
        out.append(dict(base, check='setup_changes_operands', violates_property=True,
                        detail=f'operands after registering the perturbations {r["ops_nominal"]} != operands of the built lens {r["ops_built"]}'))
    # ... and the surfaces keep the PRESCRIBED shape (independent sag of the scenario's coefficients, zero padded)
    sb = r.get('sag_built', 0.0)
    for key in ('sag_after_setup', 'sag_after_run', 'sag_after_reset'):
        v = r.get(key, 0.0)
        if v != v or v > max(1e-12, 10 * sb):
            out.append(dict(base, check=key, violates_property=True,
                            detail=f'{key}: surface sag differs from the sag of the prescribed coefficients by {v!r} (built lens: {sb!r})'))
            break
    # the object under test is the prescription that was entered, whatever route built it, and again after run / reset
    # (only reported when the snapshot agrees, otherwise the prescription clauses above carry the attribution)
    for key, gate in (('presc_built', True), ('presc_after_run', not r['diff_run']), ('presc_after_reset', not r['diff_reset'])):
        if gate and r.get(key):
            q = r[key][0]
            out.append(dict(base, check=key, violates_property=True,
                            detail=f'{key} (route {sc.get("route", "direct")}): {q.get("quantity")}: implementation {q.get("implementation")!r}, entered {q.get("entered")!r}'))
            break
    # recorded ray operands equal the values recomputed from the traced rays of the replayed lens; a trial in which some
    # ray has no image point must be recorded as undefined
    for ti, (tr, e) in enumerate(zip(r['trials'], r.get('oracle', []))):
        ro = e.get('ray_ops')
        if not ro or sc['comps']:
            continue
        hit = False
        for k, (rec, x) in enumerate(zip(tr['row_ops'], ro)):
            if x is None or 'error' in x:
                continue
            if not _close(rec, x['v'], 1e-9):
                out.append(dict(base, check='operand_vs_rays', violates_property=True, trial=ti, explained=[tuple(e.get('explained') or ['?'])] if not e['ok'] else None,
                                detail=f'trial {ti} (values {tr["values"]}): operand {sc["operands"][k][0]} {sc["operands"][k][1].get("wavelength")} recorded {rec!r}, '
                                       f'traced rays of the replayed lens give {x["v"]!r} ({x["failed"]} of {x["rays"]} rays without image point)'))
                hit = True
                break
        if hit:
            break
    # compensator limits: the recorded (compensated) lens must respect the declared limits ...
    for ci, c in enumerate(sc['comps']):
        b = c.get('bounds') or {}
        for ti, tr in enumerate(r['trials']):
            v = comp_raw(sc, tr['snap'])[ci]
            lo, hi = b.get('min_val'), b.get('max_val')
            if (lo is not None and v < lo - 1e-6 * (1 + abs(lo))) or (hi is not None and v > hi + 1e-6 * (1 + abs(hi))):
                out.append(dict(base, check='comp_bounds', violates_property=True, trial=ti,
                                detail=f'compensator {c["type"]} {c["kw"]} = {v!r} outside its declared limits [{lo}, {hi}] '
                                       f'in trial {ti} (recorded values {tr["values"]})'))
                break
    # ... and the recorded operand values equal those of an independent bounded minimisation on a fresh lens
    if r.get('bref'):
        tolr = 5e-4 if sc.get('method') == 'generic' else 1e-2
        for ti, (tr, ref) in enumerate(zip(r['trials'], r['bref'])):
            if not all(_close(a, b, tolr) for a, b in zip(tr['row_ops'], ref['ops'])):
                out.append(dict(base, check='bounded_reference', violates_property=True, trial=ti,
                                detail=f'trial {ti}: recorded operands {tr["row_ops"]} (compensator {comp_raw(sc, tr["snap"])}) != independent '
                                       f'bounded minimisation {ref["ops"]} (compensator {ref["x"]} in [{ref["lo"]}, {ref["hi"]}])'))
                break
    # to_dict() of the lens equals the nominal one (only reported when the prescription snapshot agrees: otherwise the
    # prescription clauses above already carry the witness and its attribution)
    if r.get('to_dict_ok'):
        if r.get('dict_diff_run') and not r['diff_run']:
            out.append(dict(base, check='dict_run', violates_property=True,
                            detail='Optic.to_dict() after run() differs from nominal at ' + ', '.join(r['dict_diff_run'][:4])))
        if r.get('dict_diff_reset') and not r['diff_reset']:
            out.append(dict(base, check='dict_reset', violates_property=True,
                            detail='Optic.to_dict() after reset() differs from nominal at ' + ', '.join(r['dict_diff_reset'][:4])))
    exp = len(_plan_which(sc))
    if r['nrows'] != exp:
        out.append(dict(base, check='row_count', violates_property=True, detail=f'{r["nrows"]} rows, expected {exp}'))
    for tr in r['trials']:
        if tr.get('type_ok') is False:
            out.append(dict(base, check='row_label', violates_property=True, detail='row labelled with another perturbation'))
            break
    return out


def comp_raw(sc, snap):
    """unscaled value of every compensator read from a prescription snapshot (independent of Variable)"""
    out = []
    for c in sc['comps']:
        i = c['kw']['surface_number']
        t = c['type']
        if t == 'thickness':
            out.append(snap[i + 1]['z'] - snap[i]['z'])
        elif t == 'radius':
            out.append(snap[i]['rad'])
        elif t == 'conic':
            out.append(snap[i]['con'])
        else:
            out.append(float('nan'))
    return out


def _close(a, b, tol):
    if a != a or b != b:
        return (a != a) and (b != b)
    if math.isinf(a) or math.isinf(b):
        return a == b
    return abs(a - b) <= tol * (1 + abs(a) + abs(b))


def history_of(sc):
    return sc.get('history') or ([['mc', sc['trials']]] if sc['analysis'] == 'mc' else [['sens']])


def _plan_which(sc):
    out = []
    for st in history_of(sc):
        if st[0] == 'mc':
            out += [list(range(len(sc['perts'])))] * st[1]
        elif st[0] == 'sens':
            for j, p in enumerate(sc['perts']):
                out += [[j]] * (p['sampler'][3] if p['sampler'][0] == 'range' else 1)
    return out


def system_checks(ctx):
    n = ctx.n(20, 400)
    scs = list(targeted().values()) + class_scenarios(ctx) + scenarios(ctx, n)
    try:
        res = run_impl(scs)
    except Exception as e:   # noqa
        return [{'name': 'tolerancing-state-machine', 'n': 0, 'error': 'implementation harness failed: ' + str(e)[-600:]}]
    bodies, idx = [], []
    errors = []
    for i, (sc, r) in enumerate(zip(scs, res)):
        if 'error' in r:
            errors.append({'scenario': sc, 'check': 'impl-raised', 'detail': r['error'], 'violates_property': False})
            continue
        if 'setup_error' in r:
            continue        # registration refused (expected for an asphere index beyond the stored list): checked below
        if sc.get('solves') or sc.get('share') or sc.get('int_coeffs'):
            continue        # solves / one sampler object shared by two perturbations are not in the Coq model:
                            # implementation-level clauses only (below)
        bodies.append(coq_body(sc, r))
        idx.append(i)
    cres = vlib.run_cases('c15', 'From OV Require Import Model.M_C15.', bodies) if bodies else []
    dis, wit = [], []
    hist = {}
    n_solve = 0
    for sc, r in zip(scs, res):
        if 'error' in r:
            continue
        # clauses stated directly on the implementation (all scenarios): limits respected, independent bounded
        # reference, to_dict() back at nominal; for lenses with solves also the prescription clauses
        keep = ('comp_bounds', 'bounded_reference', 'dict_run', 'dict_reset', 'setup_changes_lens', 'setup_changes_operands',
                'sag_after_setup', 'sag_after_run', 'sag_after_reset', 'presc_built', 'presc_after_run', 'presc_after_reset',
                'operand_vs_rays')
        hist['route:' + sc.get('route', 'direct')] = hist.get('route:' + sc.get('route', 'direct'), 0) + 1
        if sc.get('dependent'):
            hist['dependent:' + sc['dependent']] = hist.get('dependent:' + sc['dependent'], 0) + 1
        if 'setup_error' not in r:
            pf = sum(1 for e in r.get('oracle', []) for x in (e.get('ray_ops') or []) if x and x.get('failed') and x['failed'] < x['rays'])
            if pf:
                hist['operands-with-partial-ray-failure'] = hist.get('operands-with-partial-ray-failure', 0) + pf
        if sc.get('coeff_class'):
            hist['coeff-index:' + sc['coeff_class']] = hist.get('coeff-index:' + sc['coeff_class'], 0) + 1
        if 'setup_error' in r:
            n_solve += 1
            if r['setup_error'] != 'IndexError' or r['setup_error_diff'] or r['sag_after_setup'] > 1e-12:
                wit.append({'scenario': sc, 'analysis': sc['analysis'], 'check': 'setup_error_changes_lens', 'violates_property': True,
                            'detail': f'add_perturbation raised {r["setup_error"]} and left the lens changed at {r["setup_error_diff"][:4]} '
                                      f'(sag deviation {r["sag_after_setup"]!r})'})
            continue
        if sc.get('solves') or sc.get('share') or sc.get('int_coeffs'):
            keep = None
            n_solve += 1
        if sc.get('solves'):
            hist['solve+comp' if sc['comps'] else 'solve'] = hist.get('solve+comp' if sc['comps'] else 'solve', 0) + 1
        if sc.get('history_kind'):
            hist['history:' + sc['history_kind']] = hist.get('history:' + sc['history_kind'], 0) + 1
        if sc.get('opedit_kind'):
            hist['operand-edit:' + sc['opedit_kind']] = hist.get('operand-edit:' + sc['opedit_kind'], 0) + 1
            em = sum(1 for e in r.get('oracle', []) if e.get('edit_matters'))
            hist['operand-edit-rows-where-added-operand-moves-the-compensation'] = \
                hist.get('operand-edit-rows-where-added-operand-moves-the-compensation', 0) + em
        if sc.get('tiny'):
            k = f'perturbation-relative-size:1e-{sc["tiny"]:02d}'
            hist[k] = hist.get(k, 0) + 1
            res_ok = sum(1 for e in r.get('oracle', []) if e.get('resolved'))
            hist['tiny-rows-resolved-above-rounding'] = hist.get('tiny-rows-resolved-above-rounding', 0) + res_ok
        for pw in python_level_checks(sc, r):
            if keep is None or pw['check'] in keep:
                wit.append(pw)
        if sc.get('dependent', '').startswith('pickup'):
            hist['pickup-from-compensator'] = hist.get('pickup-from-compensator', 0) + 1
        for c in sc['comps']:
            b = c.get('bounds')
            if b is not None:
                k = sc.get('bound_kind') or ('two-sided' if len(b) == 2 else 'lower' if 'min_val' in b else 'upper' if 'max_val' in b else 'none')
                hist['bounds:' + k] = hist.get('bounds:' + k, 0) + 1
                act = sum(1 for tr in r['trials'] for v in comp_raw(sc, tr['snap'])
                          if (b.get('min_val') is not None and abs(v - b['min_val']) < 1e-4)
                          or (b.get('max_val') is not None and abs(v - b['max_val']) < 1e-4))
                hist['trials-with-active-limit'] = hist.get('trials-with-active-limit', 0) + act
    nontriv = 0
    samples = []
    coq_err = None
    for i, cr in zip(idx, cres):
        sc, r = scs[i], res[i]
        if cr[0] == 'error':
            coq_err = cr[1]
            continue
        failing = [CHECKS[k] for k in cr[2]]
        d, w = classify(sc, r, failing)
        dis += d
        wit += w
        # python-level clauses the Coq comparison does not cover (row values, reproducibility, nominal clause)
        for pw in python_level_checks(sc, r):
            if pw['check'] in ('row_fresh', 'reproducible', 'nominal_value', 'row_count', 'row_label'):
                wit.append(pw)
        key = sc['analysis'] + ('+comp' if sc['comps'] else '') + ('+pickup' if sc['pickups'] else '')
        hist[key] = hist.get(key, 0) + 1
        for p in sc['perts']:
            hist['pert:' + p['type'] + '/' + p['sampler'][0]] = hist.get('pert:' + p['type'] + '/' + p['sampler'][0], 0) + 1
        nan_rows = sum(1 for tr in r['trials'] if any(v != v for v in tr['row_ops']))
        if nan_rows:
            hist['rows-with-NaN-operand'] = hist.get('rows-with-NaN-operand', 0) + nan_rows
        if any(any((v == v) and not _close(v, n0, 1e-12) for v, n0 in zip(tr['row_ops'], r['ops_nominal'])) for tr in r['trials']):
            nontriv += 1
        if len(samples) < 2:
            samples.append({'scenario': sc['name'], 'analysis': sc['analysis'],
                            'perturbations': [[p['type'], p['sampler'][0]] for p in sc['perts']],
                            'row0': r['trials'][0]['row_ops'] if r['trials'] else None})
    out = {'name': 'tolerancing-state-machine', 'n': len(idx) + n_solve, 'nontrivial': nontriv, 'samples': samples,
           'histogram': hist, 'disagreements': dis + wit + errors,
           'note': 'model run (vm_compute, FOps) vs real SensitivityAnalysis/MonteCarlo: per-trial lens state, recorded values, '
                   'compensator values, lens after run and after reset; spec clauses evaluated on the implementation data'}
    if coq_err:
        out['error'] = coq_err
    ctx._c15_cache = (scs, res)
    return [out]


# --------------------------------------------------------------------------
# targeted scenarios (one per listed finding; also part of every system check) and finding attribution
# --------------------------------------------------------------------------
def _lens(surfs, waves=((0.5876, True),), obj=INF):
    for i, s in enumerate(surfs):
        s.setdefault('type', 'standard')
        s['is_stop'] = (i == 0)
    return {'object_thickness': obj, 'surfaces': surfs, 'aperture': ['EPD', 8.0], 'field_type': 'angle',
            'fields': [[0.0, 0.0, 0.0, 0.0]], 'wavelengths': [list(w) for w in waves], 'telecentric': False}


_RMS = ['rms_spot_size', {'surface_number': -1, 'Hx': 0.0, 'Hy': 0.0, 'num_rays': 3, 'wavelength': 'all',
                          'distribution': 'hexapolar'}]


def targeted():
    t = {}
    t['mc-no-final-reset'] = {
        'name': 't-mc', 'lens': _lens([{'radius': 60.0, 'thickness': 5.0, 'material': ['ideal', 1.5, 0.0]},
                                       {'radius': -60.0, 'thickness': 90.0, 'material': 'air'}]),
        'pickups': [], 'operands': [['f2', {}]], 'comps': [], 'method': 'generic', 'tol': 1e-5,
        'perts': [{'type': 'radius', 'kw': {'surface_number': 1}, 'sampler': ['scalar', 65.0]}],
        'analysis': 'mc', 'trials': 1, 'WS': [0.45, 0.5876, 0.7], 'check_repro': True}
    t['index-reset-loses-dispersion'] = {
        'name': 't-d23', 'lens': _lens([{'radius': 60.0, 'thickness': 5.0, 'material': ['glass', 'N-SF11', 'schott']},
                                        {'radius': -60.0, 'thickness': 50.0, 'material': 'air'}],
                                       waves=((0.4861, False), (0.5876, True), (0.6563, False))),
        'pickups': [], 'operands': [['f2', {}], _RMS], 'comps': [], 'method': 'generic', 'tol': 1e-5,
        'perts': [{'type': 'index', 'kw': {'surface_number': 1, 'wavelength': 0.5876}, 'sampler': ['range', 1.78, 1.79, 2]},
                  {'type': 'thickness', 'kw': {'surface_number': 1}, 'sampler': ['range', 4.9, 5.1, 2]}],
        'analysis': 'sens', 'trials': None, 'WS': [0.45, 0.4861, 0.5876, 0.6563, 0.7], 'check_repro': True}
    t['plane-radius-reset'] = {
        'name': 't-plane', 'lens': _lens([{'radius': INF, 'thickness': 5.0, 'material': ['ideal', 1.5, 0.0]},
                                          {'radius': -50.0, 'thickness': 90.0, 'material': 'air'}]),
        'pickups': [], 'operands': [['f2', {}], _RMS], 'comps': [], 'method': 'generic', 'tol': 1e-5,
        'perts': [{'type': 'thickness', 'kw': {'surface_number': 1}, 'sampler': ['range', 4.9, 5.1, 2]},
                  {'type': 'radius', 'kw': {'surface_number': 1}, 'sampler': ['range', 500.0, 1000.0, 2]}],
        'analysis': 'sens', 'trials': None, 'WS': [0.45, 0.5876, 0.7], 'check_repro': True}
    for sd in (0, 1, 2 ** 32 - 1):
        # boundary seeds (0 is falsy): two runs must agree and must consume exactly RandomState(seed)
        t[f'seed-{sd}'] = {
            'name': f't-seed-{sd}', 'lens': _lens([{'radius': 60.0, 'thickness': 5.0, 'material': ['ideal', 1.5, 0.0]},
                                                   {'radius': -60.0, 'thickness': 90.0, 'material': 'air'}]),
            'pickups': [], 'operands': [['f2', {}]], 'comps': [], 'method': 'generic', 'tol': 1e-5,
            'perts': [{'type': 'radius', 'kw': {'surface_number': 1}, 'sampler': ['normal', 60.0, 0.5, sd]},
                      {'type': 'thickness', 'kw': {'surface_number': 1}, 'sampler': ['uniform', 4.9, 5.1, None]}],
            'analysis': 'mc', 'trials': 3, 'WS': [0.45, 0.5876, 0.7], 'check_repro': True}
    t['integer-coefficients-truncate'] = {
        'name': 't-intcoef', 'lens': _lens([{'type': 'polynomial', 'radius': 60.0, 'conic': 0.0, 'coefficients': [[0, 0], [0, 0], [0, 0]],
                                             'thickness': 5.0, 'material': ['ideal', 1.5, 0.0]},
                                            {'radius': -200.0, 'thickness': 60.0, 'material': 'air'}]),
        'pickups': [], 'solves': [], 'comps': [], 'method': 'generic', 'tol': 1e-5,
        'operands': [['real_y_intercept', {'surface_number': -1, 'Hx': 0.0, 'Hy': 0.0, 'Px': 0.5, 'Py': 0.7, 'wavelength': 0.5876}]],
        'perts': [{'type': 'polynomial_coeff', 'kw': {'surface_number': 1, 'coeff_index': [1, 1]}, 'sampler': ['range', -0.01, 0.01, 2]}],
        'analysis': 'sens', 'trials': None, 'WS': [0.45, 0.5876, 0.7], 'check_repro': True, 'int_coeffs': True, 'c2shape': [3, 2],
        'coeff_class': 'polynomial/integer-array'}
    t['reset-skips-update'] = {
        'name': 't-pickup', 'lens': _lens([{'radius': 60.0, 'thickness': 5.0, 'material': ['ideal', 1.5, 0.0]},
                                           {'radius': -60.0, 'thickness': 90.0, 'material': 'air'}]),
        'pickups': [[1, 'radius', 2, -1.0, 0.0]], 'operands': [['f2', {}]], 'method': 'generic', 'tol': 1e-5,
        'comps': [{'type': 'thickness', 'kw': {'surface_number': 2}}],
        'perts': [{'type': 'radius', 'kw': {'surface_number': 1}, 'sampler': ['range', 55.0, 65.0, 2]}],
        'analysis': 'sens', 'trials': None, 'WS': [0.45, 0.5876, 0.7], 'check_repro': True}
    return t


def _surf_of(sc, i):
    return sc['lens']['surfaces'][i - 1] if 1 <= i <= len(sc['lens']['surfaces']) else None


def entry_rule(sc, entry):
    """which listed-finding rule (if any) explains one differing (surface, field) of the final lens"""
    i, field = entry
    hs = sc['perts'] + sc['comps']
    s = _surf_of(sc, i)
    if field == 'med' and s is not None and isinstance(s['material'], list) and s['material'][0] == 'glass' \
            and any(h['type'] == 'index' and h['kw']['surface_number'] == i for h in hs):
        return 'index-reset-loses-dispersion'
    if field == 'kind' and s is not None and s['radius'] == INF \
            and any(h['type'] == 'radius' and h['kw']['surface_number'] == i for h in hs):
        return 'plane-radius-reset'
    if sc['pickups'] and sc['comps']:
        for (src, attr, tgt, scale, off) in sc['pickups']:
            if (attr == 'radius' and field == 'rad' and i == tgt) or (attr == 'conic' and field == 'con' and i == tgt) \
                    or (attr == 'thickness' and field == 'z' and i > tgt):
                return 'reset-skips-update'
    return None


VARIANT_TAG = {'d23': 'index-reset-loses-dispersion', 'plane': 'plane-radius-reset',
               'intcoef': 'integer-coefficients-truncate'}


def witness_rules(w):
    """set of finding ids that together explain the witness, or None if some part is unexplained"""
    sc = w['scenario']
    c = w.get('check')
    if c in ('p_run_ends_nominal', 'p_reset_restores'):
        rules = set()
        for e in w.get('diff') or [[None, None]]:
            r = entry_rule(sc, e) if e[0] is not None else None
            if r is None:
                # MonteCarlo.run without final reset leaves every perturbed / compensated coordinate displaced
                if c == 'p_run_ends_nominal' and w.get('analysis') == 'mc':
                    return {'mc-no-final-reset'}
                return None
            rules.add(r)
        return rules
    if c == 'nominal_value':
        rules = set()
        for e in w.get('diff') or [[None, None]]:
            r = entry_rule(sc, e) if e[0] is not None else None
            if r is None:
                return None
            rules.add(r)
        return rules
    if c == 'operand_vs_rays' and w.get('explained'):
        rules = set()
        for variant in w['explained']:
            if '?' in variant:
                return None
            rules |= {VARIANT_TAG[v] for v in variant}
        return rules or None
    if c in ('row_fresh', 'p_rows_fresh_state'):
        ex = w.get('explained') or []
        if w.get('state_only'):
            rules = set()
            for e in w.get('diff') or [[None, None]]:
                r = entry_rule(sc, e) if e[0] is not None else None
                if r is None:
                    return None
                rules.add(r)
            return rules
        rules = set()
        for variant in ex:
            if '?' in variant:
                return None
            rules |= {VARIANT_TAG[v] for v in variant}
        return rules or None
    return None


def matches_finding(w, f):
    rules = witness_rules(w)
    if not rules:
        return False
    known = {k['id'] for k in vlib.load_known_findings(PROP)}
    return f['id'] in rules and rules <= known


def replay_finding(ctx, f):
    sc = targeted().get(f['id'])
    if sc is None:
        return None
    r = run_impl([sc])[0]
    if 'error' in r:
        return None
    for w in python_level_checks(sc, r):
        rules = witness_rules(w)
        if rules and f['id'] in rules:
            return True
    return False


def search(ctx, broken, disagreements):
    """the property stated directly on the implementation (no Coq): seeded sweep of scenarios; every row is
    re-evaluated on a freshly built nominal lens, the prescription after run()/reset() is compared with the nominal
    one, seeded runs are repeated"""
    scs = list(targeted().values()) + class_scenarios(ctx) + class_scenarios(ctx, seed_off=1) \
        + scenarios(ctx, ctx.n(40, 300), seed_off=104729)
    res = run_impl(scs)
    out = []
    seen = set()
    for sc, r in zip(scs, res):
        if 'error' in r:
            continue
        for w in python_level_checks(sc, r):
            rules = witness_rules(w)
            key = (w['check'], tuple(sorted(rules)) if rules else ('unexplained', sc['name']))
            if key in seen:
                continue
            seen.add(key)
            out.append(w)
    # unexplained witnesses first so that they are the ones reported
    out.sort(key=lambda w: 0 if not witness_rules(w) else 1)
    return out or None


def broken_explained(b, known, witnesses):
    return False

"""C14 kernels: scaling arithmetic of the optimisation variables, operand residuals, variable read-out.

Translated by py2coq into coq/Gen/OptVars.v (regenerated on every run)."""
V = 'optiland/optimization/variable/'
OP = 'optiland/optimization/operand/operand.py'

MODULE_DEPS = {}


def _pair(prefix, file, cls, extra=None):
    t = dict(extra or {})
    return [dict(name=prefix + '_scale', file=V + file, cls=cls, func='scale', types=t),
            dict(name=prefix + '_inverse_scale', file=V + file, cls=cls, func='inverse_scale', types=t)]


MODULES = {
    'OptVars': (
        _pair('radius', 'radius.py', 'RadiusVariable')
        + _pair('thickness', 'thickness.py', 'ThicknessVariable')
        + _pair('index', 'index.py', 'IndexVariable')
        + _pair('asphere', 'asphere_coeff.py', 'AsphereCoeffVariable', {'self.coeff_number': 'int'})
        + _pair('conic', 'conic.py', 'ConicVariable')
        + _pair('tilt', 'tilt.py', 'TiltVariable')
        + _pair('decenter', 'decenter.py', 'DecenterVariable')
        + _pair('poly', 'polynomial_coeff.py', 'PolynomialCoeffVariable')
        + _pair('base', 'base.py', 'VariableBehavior')
        + [
            # value read-out: raw value -> optimiser units
            dict(name='radius_get_value', file=V + 'radius.py', cls='RadiusVariable', func='get_value',
                 types={'self._surfaces.radii': 'list', 'self.surface_number': 'int', 'self.apply_scaling': 'bool'},
                 calls={'self.scale': 'radius_scale'}),
            dict(name='conic_get_value', file=V + 'conic.py', cls='ConicVariable', func='get_value',
                 types={'self._surfaces.conic': 'list', 'self.surface_number': 'int'}),
            dict(name='thickness_get_value', file=V + 'thickness.py', cls='ThicknessVariable', func='get_value',
                 types={'self.surface_number': 'int', 'self.apply_scaling': 'bool'},
                 opaque_calls={'self._surfaces.get_thickness': 'num'},
                 calls={'self.scale': 'thickness_scale'}),
            dict(name='index_get_value', file=V + 'index.py', cls='IndexVariable', func='get_value',
                 types={'self.surface_number': 'int', 'self.apply_scaling': 'bool'},
                 opaque_calls={'self.optic.n': 'list'},
                 calls={'self.scale': 'index_scale'}),
            # Variable.bounds, specialised per behaviour class (receiver of .scale) with both limits given
            dict(name='bounds_radius', file=V + 'variable.py', cls='Variable', func='bounds',
                 static={'self.min_val': 'notnone', 'self.max_val': 'notnone'}, types={'self.apply_scaling': 'bool'},
                 calls={'self.variable.scale': 'radius_scale'}),
            dict(name='bounds_thickness', file=V + 'variable.py', cls='Variable', func='bounds',
                 static={'self.min_val': 'notnone', 'self.max_val': 'notnone'}, types={'self.apply_scaling': 'bool'},
                 calls={'self.variable.scale': 'thickness_scale'}),
            dict(name='bounds_index', file=V + 'variable.py', cls='Variable', func='bounds',
                 static={'self.min_val': 'notnone', 'self.max_val': 'notnone'}, types={'self.apply_scaling': 'bool'},
                 calls={'self.variable.scale': 'index_scale'}),
            dict(name='bounds_asphere', file=V + 'variable.py', cls='Variable', func='bounds',
                 static={'self.min_val': 'notnone', 'self.max_val': 'notnone'},
                 types={'self.variable.coeff_number': 'int', 'self.apply_scaling': 'bool'},
                 calls={'self.variable.scale': 'asphere_scale'}),
            dict(name='bounds_identity', file=V + 'variable.py', cls='Variable', func='bounds',
                 static={'self.min_val': 'notnone', 'self.max_val': 'notnone'}, types={'self.apply_scaling': 'bool'},
                 calls={'self.variable.scale': 'base_scale'}),
            # operand residual
            dict(name='operand_delta', file=OP, cls='Operand', func='delta'),
            dict(name='operand_fun', file=OP, cls='Operand', func='fun', calls={'self.delta': 'operand_delta'}),
        ]),
}

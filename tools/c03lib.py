"""Helpers of property C03: stub-driven runner for the RayGenerator kernels, lens/config generation over the
24 configuration cells, rendering of Model/M_C03.v optics, and the independent launch oracle."""
import math
import random

import vlib

INF = float('inf')

# ---------------------------------------------------------------------------------------------
# kernel-level runner: the REAL RayGenerator methods on stub optics holding exactly the kernel inputs
# ---------------------------------------------------------------------------------------------
RG_RUNNER = r'''
import sys, json, types, warnings, numpy as np
warnings.simplefilter('ignore'); np.seterr(all='ignore')
from optiland.rays.ray_generator import RayGenerator
from optiland.geometries import StandardGeometry
from optiland.coordinate_system import CoordinateSystem
job = json.load(open(sys.argv[1]))
man = job['manifest']
NS = types.SimpleNamespace
def fl(v):
    return float.fromhex(v) if isinstance(v, str) else float(v)
out = []
for case in job['cases']:
    vals = {inp['path']: v for inp, v in zip(man['inputs'], case)}
    g = lambda k, d=None: vals.get(k, d)
    geo = StandardGeometry(CoordinateSystem(z=fl(g('self.optic.object_surface.geometry.cs.z', 0.0))),
                           radius=fl(g('self.optic.object_surface.geometry.radius', float('inf'))),
                           conic=fl(g('self.optic.object_surface.geometry.k', 0.0)))
    v0 = fl(g('self.optic.fields.get_vig_factor()[0]', 0.0)); v1 = fl(g('self.optic.fields.get_vig_factor()[1]', 0.0))
    epl = fl(g('self.optic.paraxial.EPL()', 0.0)); epd = fl(g('self.optic.paraxial.EPD()', 1.0))
    n0 = fl(g('self.optic.object_surface.material_post.n()', 1.0))
    optic = NS(object_surface=NS(is_infinite=bool(g('self.optic.object_surface.is_infinite', False)), geometry=geo,
                                 material_post=NS(n=(lambda v: (lambda w_: v))(n0))),
               primary_wavelength=0.55,
               fields=NS(max_field=fl(g('self.optic.fields.max_field', 0.0)),
                         get_vig_factor=(lambda a, b: (lambda Hx, Hy: (a, b)))(v0, v1)),
               field_type=g('self.optic.field_type', 'angle'),
               obj_space_telecentric=bool(g('self.optic.obj_space_telecentric', False)),
               paraxial=NS(EPL=(lambda e: (lambda: e))(epl), EPD=(lambda e: (lambda: e))(epd)),
               surface_group=NS(positions=np.array([fl(x) for x in g('self.optic.surface_group.positions', ['0x0p+0', '0x0p+0', '0x0p+0'])]),
                                uses_polarization=bool(g('self.optic.surface_group.uses_polarization', False))),
               aperture=NS(ap_type=g('self.optic.aperture.ap_type', 'EPD'), value=fl(g('self.optic.aperture.value', 1.0))),
               polarization=g('self.optic.polarization', 'ignore'))
    gen = object.__new__(RayGenerator)
    gen.optic = optic
    arr = lambda k: np.array([fl(vals[k])])
    try:
        if man['func'] == '_get_starting_z_offset':
            r = [gen._get_starting_z_offset()]
        elif man['func'] == '_get_ray_origins':
            r = gen._get_ray_origins(arr('Hx'), arr('Hy'), arr('Px'), arr('Py'), fl(vals['vx']), fl(vals['vy']))
        else:
            rays = gen.generate_rays(arr('Hx'), arr('Hy'), arr('Px'), arr('Py'), fl(vals['wavelength']))
            r = [rays.x, rays.y, rays.z, rays.L, rays.M, rays.N, rays.i, rays.w]
            if float(np.ravel(rays.opd)[0]) != 0.0:
                r = None
        out.append({'ok': [float(np.ravel(v)[0]).hex() for v in r]} if r is not None else {'err': 'opd-nonzero'})
    except Exception as e:
        out.append({'err': type(e).__name__, 'msg': str(e)[:100]})
json.dump(out, open(sys.argv[2], 'w'))
'''

FIELD_TYPES = ['angle', 'object_height']
AP_TYPES = ['EPD', 'imageFNO', 'objectNA']


def rg_cases(g, man, n):
    """random inputs of one RayGenerator kernel, cycling through the configuration cells"""
    cases = []
    cells = [(inf, ft, tele, ap) for inf in (False, True) for ft in FIELD_TYPES for tele in (False, True) for ap in AP_TYPES]
    for i in range(n):
        inf, ft, tele, ap = cells[i % 24]
        if i % 53 == 52:
            ft = 'height'                  # unknown field type: neither branch of the elif chain
        nsurf = g.r.choice([1, 2, 3, 5])
        z = [0.0]
        for _ in range(nsurf - 1):
            z.append(z[-1] + g.uni(-3.0, 9.0))
        objz = -INF if inf else -g.uni(20.0, 400.0)
        pos = [objz] + z + [z[-1] + g.uni(10, 80)]
        pupil_r, th = g.r.choice([0.0, 0.5, 1.0, g.uni(0, 1)]), g.uni(0, 6.283)
        v = {
            'Hx': g.r.choice([0.0, 0.0, g.uni(-1, 1)]), 'Hy': g.r.choice([0.0, 1.0, -1.0, g.uni(-1, 1)]),
            'Px': pupil_r * math.cos(th), 'Py': pupil_r * math.sin(th),
            'vx': 1 - g.r.choice([0.0, g.uni(0, 0.5)]), 'vy': 1 - g.r.choice([0.0, g.uni(0, 0.5)]),
            'wavelength': g.uni(0.35, 1.1),
            'self.optic.fields.get_vig_factor()[0]': g.r.choice([0.0, g.uni(0, 0.5)]),
            'self.optic.fields.get_vig_factor()[1]': g.r.choice([0.0, g.uni(0, 0.5)]),
            'self.optic.fields.max_field': g.r.choice([0.0, g.uni(0.5, 25.0)]),
            'self.optic.object_surface.is_infinite': inf,
            'self.optic.field_type': ft,
            'self.optic.obj_space_telecentric': tele,
            'self.optic.paraxial.EPL()': g.r.choice([0.0, g.uni(-60, 120), g.uni(-5, 20)]),
            'self.optic.paraxial.EPD()': g.uni(0.5, 25.0),
            'self.optic.surface_group.positions': pos,
            'self.optic.object_surface.geometry.radius': g.r.choice([INF, INF, g.uni(50, 500) * g.r.choice([-1, 1])]),
            'self.optic.object_surface.geometry.k': g.r.choice([0.0, 0.0, g.uni(-1.5, 0.5)]),
            'self.optic.object_surface.geometry.cs.z': objz if not inf else -INF,
            'self.optic.aperture.ap_type': ap,
            'self.optic.object_surface.material_post.n()': g.r.choice([1.0, 1.0, g.uni(1.2, 1.7)]),
            'self.optic.aperture.value': g.uni(0.02, 0.6) if ap == 'objectNA' else g.uni(1.0, 12.0),
            'self.optic.polarization': 'ignore' if i % 5 else 'state',
            'self.optic.surface_group.uses_polarization': (i % 7 == 3),
        }
        cases.append([v[inp['path']] for inp in man['inputs']])
    return cases


def rg_pyres(man, cases):
    enc = []
    for c in cases:
        ec = []
        for inp, v in zip(man['inputs'], c):
            if inp['kind'] == 'num':
                ec.append(float(v).hex())
            elif inp['kind'] == 'list':
                ec.append([float(x).hex() for x in v])
            else:
                ec.append(v)
        enc.append(ec)
    return vlib.run_python(RG_RUNNER, {'manifest': man, 'cases': enc})


# ---------------------------------------------------------------------------------------------
# kernel-level runner for RandomDistribution: the real generate_points on a stub rng that replays the draws
# ---------------------------------------------------------------------------------------------
RANDOM_RUNNER = r'''
import sys, json, types, numpy as np
from optiland.distribution import RandomDistribution
job = json.load(open(sys.argv[1]))
out = []
for (vx, vy, r, th) in job['cases']:
    d = object.__new__(RandomDistribution)
    seq = [np.array([float.fromhex(v) for v in r]), np.array([float.fromhex(v) for v in th])]
    class Rng:
        def __init__(self): self.k = 0
        def uniform(self, *a, **kw):
            v = seq[self.k]; self.k += 1; return v
    d.rng = Rng()
    try:
        d.generate_points(len(r), float.fromhex(vx), float.fromhex(vy))
        out.append({'ok': [[float(v).hex() for v in d.x], [float(v).hex() for v in d.y]]})
    except Exception as e:
        out.append({'err': type(e).__name__})
json.dump(out, open(sys.argv[2], 'w'))
'''


# ---------------------------------------------------------------------------------------------
# system level: real lenses in every configuration cell
# ---------------------------------------------------------------------------------------------
def cell_spec(rng, cell=None, nsurf=None, field_class=None):
    """a lensgen spec forced into one of the 24 configuration cells (object finite/infinite x field type x
    telecentric x aperture type), valid or not.  field_class: 'positive' (0..+max on the y axis), 'negative-largest'
    (the largest field magnitude is a negative y field), 'mixed-xy' (x and y extremes on different field points)"""
    import lensgen
    inf, ft, tele, ap = cell if cell else (rng.random() < 0.5, rng.choice(FIELD_TYPES), rng.random() < 0.3, rng.choice(AP_TYPES))
    spec = lensgen.gen_spec(rng, nsurf=nsurf, allow=['plane', 'standard', 'conic', 'even_asphere'], decenter=False,
                            finite_object=not inf)
    spec['field_type'] = ft
    spec['telecentric'] = tele
    if ap == 'EPD':
        spec['aperture'] = ['EPD', rng.uniform(3.0, 9.0)]
    elif ap == 'imageFNO':
        spec['aperture'] = ['imageFNO', rng.uniform(3.0, 10.0)]
    else:
        spec['aperture'] = ['objectNA', rng.uniform(0.01, 0.12)]
    maxf = rng.uniform(1.0, 12.0)
    nf = rng.choice([1, 2, 3, 4])
    fclass = field_class if field_class else rng.choices(['positive', 'negative-largest', 'mixed-xy'], weights=[5, 3, 2])[0]
    if fclass == 'positive':
        fields = [[maxf * j / max(1, nf - 1) if nf > 1 else rng.choice([0.0, maxf]), 0.0, 0.0, 0.0] for j in range(nf)]
    elif fclass == 'negative-largest':
        # the field of largest magnitude is negative (0, -14, -20 / -6, 0, +3 / a single negative field)
        ys = [-maxf] + [rng.choice([0.0, -maxf * rng.uniform(0.2, 0.9), maxf * rng.uniform(0.1, 0.8)]) for _ in range(nf - 1)]
        ys = list(dict.fromkeys(ys))
        fields = [[y, 0.0, 0.0, 0.0] for y in ys]
    else:
        # x and y extremes on different field points ((0, 10), (10, 0), ...), both signs
        fields = [[maxf * rng.uniform(0.6, 1.0) * rng.choice([-1, 1]), 0.0, 0.0, 0.0],
                  [0.0, maxf * rng.choice([-1, 1]), 0.0, 0.0]]
        for _ in range(nf - 2):
            fields.append([maxf * rng.uniform(-0.6, 0.6), maxf * rng.uniform(-0.6, 0.6), 0.0, 0.0])
    spec_fclass = fclass
    ysorted = sorted(f[0] for f in fields)
    increasing = all(b > a for a, b in zip(ysorted, ysorted[1:])) and max(ysorted) > 0
    if fclass != 'mixed-xy' and len(fields) > 1 and increasing and rng.random() < 0.5:
        for f in fields:
            if f[0] != 0.0:
                f[2] = rng.uniform(0, 0.4)
                f[3] = rng.uniform(0, 0.4)
    rng.shuffle(fields)
    spec['fields'] = fields
    spec['field_class'] = spec_fclass
    if rng.random() < 0.15:
        spec['object_radius'] = rng.uniform(80, 600) * rng.choice([-1, 1])
    if rng.random() < 0.12:
        spec['object_index'] = rng.uniform(1.2, 1.6)
        spec['object_material'] = ['ideal', spec['object_index'], 0.0]
    return spec


ROUTES = ['direct', 'handbuilt', 'reuse', 'roundtrip']


def _extras(o, spec):
    """object-surface extras of cell_spec that lensgen.build does not know"""
    from optiland.geometries import StandardGeometry
    obj = o.surface_group.surfaces[0]
    if spec.get('object_radius') and math.isfinite(spec['object_thickness']):
        obj.geometry = StandardGeometry(obj.geometry.cs, radius=spec['object_radius'], conic=0.0)
    if spec.get('polarization'):
        from optiland.rays import PolarizationState
        o.set_polarization(PolarizationState(is_polarized=False))
    return o


def build(spec, route='direct', rng=None):
    """the prescription `spec` reached through one of the public routes:
    direct     fresh Optic, keyword add_surface;
    handbuilt  some surfaces enter as ready-made Surface objects (add_surface(new_surface=...));
    reuse      an Optic that held a DIFFERENT lens (whose helpers were used), emptied with reset() and filled again;
    roundtrip  built, to_dict() -> Optic.from_dict();
    edited     a DIFFERENT lens / configuration is built and queried, then brought to `spec` with the public setters
               (not part of ROUTES: used by the edit-history class and the fixed corpus only)."""
    import random
    import lensgen
    from optiland.optic import Optic
    rng = rng or random.Random(12345)
    if route == 'edited':
        return build_edited(spec, rng, kinds=spec.get('edit_kinds'))
    if route == 'roundtrip':
        return Optic.from_dict(_extras(lensgen.build(spec), spec).to_dict())
    if route in ('reuse', 'handbuilt'):
        return _extras(lensgen.build_via(spec, route, rng), spec)
    return _extras(lensgen.build(spec), spec)



# ---------------------------------------------------------------------------------------------
# edit histories: the prescription is reached by public setter calls on a lens that was created different
# ---------------------------------------------------------------------------------------------
EDIT_KINDS = ['object_index', 'object_distance', 'thickness', 'radius', 'index', 'aperture', 'field_type', 'telecentric']


def edited_start(spec, rng, kinds=None):
    """(start prescription, [edit]) such that applying the edits (public setters of Optic) to the start prescription
    gives `spec`.  kinds: edit kinds that MUST be present when applicable (None: a random non-empty subset).
    edit = ('index'|'thickness'|'radius', surface number, final value) | ('aperture', type, value) |
    ('field_type', name) | ('telecentric', flag)"""
    import copy
    st = copy.deepcopy(spec)
    for k in ('route', 'edits', 'edit_kinds'):
        st.pop(k, None)
    want = set(kinds) if kinds else {k for k in EDIT_KINDS if rng.random() < 0.45}
    if not want:
        want = {rng.choice(EDIT_KINDS)}
    edits = []
    ns = len(spec['surfaces'])
    if 'object_index' in want:
        om = spec.get('object_material')
        if om is None or (om[0] == 'ideal' and om[2] == 0.0):
            nfin = float(om[1]) if om else 1.0
            if om and rng.random() < 0.6:
                st.pop('object_material', None)          # created in air, immersed afterwards
                st.pop('object_index', None)
            else:
                nst = rng.uniform(1.2, 1.7)
                st['object_material'] = ['ideal', nst, 0.0]
                st['object_index'] = nst
            edits.append(('index', 0, nfin))
    if 'object_distance' in want:
        d = float(spec['object_thickness'])
        if math.isinf(d):
            st['object_thickness'] = rng.uniform(40.0, 400.0)
        else:
            st['object_thickness'] = INF if rng.random() < 0.3 else d * rng.choice([rng.uniform(0.3, 0.8), rng.uniform(1.3, 3.0)])
        edits.append(('thickness', 0, d))
    if 'thickness' in want:
        si = rng.randrange(1, ns + 1)
        st['surfaces'][si - 1]['thickness'] = spec['surfaces'][si - 1]['thickness'] * rng.choice([rng.uniform(0.5, 0.8), rng.uniform(1.25, 1.8)])
        edits.append(('thickness', si, float(spec['surfaces'][si - 1]['thickness'])))
    if 'radius' in want:
        cand = [i for i in range(1, ns + 1) if math.isfinite(float(spec['surfaces'][i - 1].get('radius', INF)))]
        if cand:
            si = rng.choice(cand)
            st['surfaces'][si - 1]['radius'] = spec['surfaces'][si - 1]['radius'] * rng.choice([rng.uniform(0.6, 0.85), rng.uniform(1.2, 1.6)])
            edits.append(('radius', si, float(spec['surfaces'][si - 1]['radius'])))
    if 'index' in want:
        def ideal(i):
            m = spec['surfaces'][i - 1].get('material', 'air')
            return isinstance(m, list) and m[0] == 'ideal' and m[2] == 0.0
        cand = [i for i in range(1, ns + 1) if ideal(i) and (i == ns or spec['surfaces'][i].get('material', 'air') != 'mirror')]
        if cand:
            si = rng.choice(cand)
            st['surfaces'][si - 1]['material'] = ['ideal', rng.uniform(1.35, 1.95), 0.0]
            edits.append(('index', si, float(spec['surfaces'][si - 1]['material'][1])))
    if 'aperture' in want:
        ap = rng.choice(AP_TYPES)
        st['aperture'] = [ap, rng.uniform(0.02, 0.3) if ap == 'objectNA' else rng.uniform(2.0, 12.0)]
        edits.append(('aperture', spec['aperture'][0], float(spec['aperture'][1])))
    if 'field_type' in want:
        st['field_type'] = 'angle' if spec['field_type'] == 'object_height' else 'object_height'
        edits.append(('field_type', spec['field_type']))
    if 'telecentric' in want:
        st['telecentric'] = not bool(spec.get('telecentric'))
        edits.append(('telecentric', bool(spec.get('telecentric'))))
    rng.shuffle(edits)
    return st, edits


def apply_history(o, edits):
    for e in edits:
        if e[0] in ('index', 'thickness', 'radius'):
            getattr(o, 'set_' + e[0])(e[2], e[1])
        elif e[0] == 'aperture':
            o.set_aperture(e[1], e[2])
        elif e[0] == 'field_type':
            o.set_field_type(e[1])
        elif e[0] == 'telecentric':
            o.obj_space_telecentric = e[1]


def build_edited(spec, rng, kinds=None):
    """query, edit, query: the start lens is built, its paraxial helpers and generator are USED, then the public setters
    bring it to `spec`.  The history is recorded in spec['edits'] (for the witness)."""
    import numpy as np
    import lensgen
    st, edits = edited_start(spec, rng, kinds)
    o = lensgen.build(st)
    w = spec['wavelengths'][0][0]
    for q in (lambda: o.paraxial.EPL(), lambda: o.paraxial.EPD(), lambda: o.paraxial.f2(),
              lambda: o.ray_generator.generate_rays(np.array([0.0]), np.array([1.0]), np.array([0.0]), np.array([1.0]), w),
              lambda: o.trace_generic(np.array([0.0]), np.array([0.5]), np.array([0.3]), np.array([-0.4]), w)):
        try:
            q()
        except Exception:      # noqa  (the start configuration may be one that must be rejected)
            pass
    apply_history(o, edits)
    spec['edits'] = [list(e) for e in edits]
    spec['edit_start'] = {k: st.get(k) for k in ('object_thickness', 'object_material', 'aperture', 'field_type', 'telecentric')}
    return _extras(o, spec)


def far_object(spec, rng, distance=None, scale_heights=None):
    """finite object distances over the whole finite range: log-uniform 1e0 .. 1e14 lens units (with the exact decades
    1e10, 1e12 now and then); object heights either as generated (a few units) or scaled with the distance (a degree-sized
    field).  In place; returns spec."""
    d = distance if distance is not None else rng.choice([10.0 ** rng.uniform(0, 14), 10.0 ** rng.uniform(9, 14), 10.0 ** rng.uniform(9.5, 11),
                                                           1e10, 1e12, 3.844e11])
    spec['object_thickness'] = float(d)
    sc = scale_heights if scale_heights is not None else (spec['field_type'] == 'object_height' and rng.random() < 0.5)
    if sc and spec['field_type'] == 'object_height':
        k = d / 100.0
        for f in spec['fields']:
            f[0] *= k
            f[1] *= k
        spec.pop('object_radius', None)
    if spec['aperture'][0] == 'objectNA' and not spec.get('telecentric') and d > 1e3:
        spec['aperture'] = ['objectNA', rng.uniform(3.0, 9.0) / (2 * d)]       # a pupil of lens size, not of object-distance size
    if spec.get('object_radius') and abs(spec['object_radius']) < 1e3 and d > 1e6:
        spec.pop('object_radius', None)
    spec['strict_oracle'] = True
    return spec


def spec_fields(spec):
    """[(x, y, vx, vy)] as ENTERED (spec rows are [y, x, vx, vy])"""
    return [(float(f[1]), float(f[0]), float(f[2]), float(f[3])) for f in spec['fields']]


def coq_optic(name, o, spec):
    """Definition <name> : optic FOps := ...   The configuration (field type, telecentric flag, aperture, fields,
    polarization, object geometry) is the one ENTERED (spec), not read back from the object; the surface table is read
    from the object and guarded by lensgen.prescription_problems in the checks."""
    import paraxcorr
    fh = vlib.fhex
    ps = paraxcorr.psurfs(o)
    R = float(spec['object_radius']) if spec.get('object_radius') and math.isfinite(spec['object_thickness']) else INF
    k = 0.0
    fields = '[' + '; '.join(f'mkField (O:=FOps) {fh(x)} {fh(y)} {fh(vx)} {fh(vy)}' for x, y, vx, vy in spec_fields(spec)) + ']'
    surfs = '[' + ';\n   '.join(paraxcorr.coq_psurf(s_) for s_ in ps) + ']'
    pol = 'state' if spec.get('polarization') else 'ignore'
    b = lambda v: 'true' if v else 'false'
    return (f'Definition {name} : optic FOps := mkOptic (O:=FOps) {surfs}\n  {fh(R)} {fh(k)} "{spec["field_type"]}"%string '
            f'{b(spec.get("telecentric"))} "{spec["aperture"][0]}"%string {fh(spec["aperture"][1])}\n  {fields} "{pol}"%string '
            f'{b(o.surface_group.uses_polarization)}.')


def entered_problems(o, spec):
    """is the object the prescription that was entered (independent of the route)?"""
    import lensgen
    try:
        return lensgen.prescription_problems(spec, o)
    except Exception as e:     # noqa
        return [{'kind': 'prescription', 'quantity': 'oracle could not read the lens', 'error': repr(e)[:120]}]


def impl_launch(o, Hx, Hy, Px, Py, w, via='generate'):
    """one ray through the real generator; ('ok', [x y z L M N i w opd]) or ('err', type)"""
    import numpy as np
    a = lambda v: np.array([v], dtype=float)
    try:
        if via == 'generate':
            r = o.ray_generator.generate_rays(a(Hx), a(Hy), a(Px), a(Py), w)
            return ('ok', [float(np.ravel(v)[0]) for v in (r.x, r.y, r.z, r.L, r.M, r.N, r.i, r.w, r.opd)])
        o.trace_generic(a(Hx), a(Hy), a(Px), a(Py), w)
        sg = o.surface_group
        return ('ok', [float(c[0, 0]) for c in (sg.x, sg.y, sg.z, sg.L, sg.M, sg.N)] + [1.0, w, 0.0])
    except Exception as e:      # noqa
        return ('err', type(e).__name__, str(e)[:100])


# ---------------------------------------------------------------------------------------------
# independent oracle: the property stated on the implementation's launch, with matrix-optics EPL / EPD
# ---------------------------------------------------------------------------------------------
REJECT_RULES = [
    ('height-fields-infinite-object', lambda inf, ft, tele, ap: inf and ft == 'object_height'),
    ('telecentric-infinite-object', lambda inf, ft, tele, ap: inf and tele),
    ('angle-fields-telecentric', lambda inf, ft, tele, ap: tele and ft == 'angle'),
    ('EPD-telecentric', lambda inf, ft, tele, ap: tele and ap == 'EPD'),
    ('imageFNO-telecentric', lambda inf, ft, tele, ap: tele and ap == 'imageFNO'),
    ('objectNA-infinite-object', lambda inf, ft, tele, ap: inf and ap == 'objectNA'),
]


def must_reject(inf, ft, tele, ap):
    return [n for n, r in REJECT_RULES if r(inf, ft, tele, ap)]


def interp_oracle(h, hs, vs):
    import numpy as np
    return float(np.interp(h, hs, vs))


class _F:
    def __init__(self, t):
        self.x, self.y, self.vx, self.vy = t


def entered_fields(spec):
    return [_F(t) for t in spec_fields(spec)]


def check_max_field(o, spec=None):
    """'maximum field' = largest field magnitude of the lens (independent recomputation)"""
    flds = entered_fields(spec) if spec is not None else o.fields.fields
    exp = max(math.hypot(f.x, f.y) for f in flds)
    got = float(o.fields.max_field)
    if not abs(got - exp) <= 1e-12 * (1 + exp):
        return [{'kind': 'max-field', 'implementation': got, 'largest_field_magnitude': exp,
                 'fields(x,y)': [[f.x, f.y] for f in flds]}]
    return []


def impl_origins(o, Hx, Hy, Px, Py, vx, vy):
    """RayGenerator._get_ray_origins called directly; ('ok', [x0 y0 z0]) or ('err', type)"""
    import numpy as np
    a = lambda v: np.array([v], dtype=float)
    try:
        r = o.ray_generator._get_ray_origins(a(Hx), a(Hy), a(Px), a(Py), vx, vy)
        return ('ok', [float(np.ravel(v)[0]) for v in r])
    except Exception as e:      # noqa
        return ('err', type(e).__name__, str(e)[:100])


def check_origins(o, spec, args, res):
    """the origin clauses of the property on _get_ray_origins (any field list, off-axis Hx): start height H x max field
    (finite object, heights); chief direction at the field angles (angle fields); rejection of the unrepresentable cells"""
    import oracles, paraxcorr
    Hx, Hy, Px, Py, vx, vy = args
    bad = check_max_field(o, spec)       # reported together with the origin clause it breaks
    inf = math.isinf(spec['object_thickness'])
    ft, tele, ap = spec['field_type'], bool(spec.get('telecentric')), spec['aperture'][0]
    if (inf and ft == 'object_height') or (inf and tele):
        if res[0] == 'ok' or res[1] != 'ValueError':
            bad.append({'kind': 'origins-not-rejected', 'cell': [inf, ft, tele, ap], 'result': list(res[:2])})
        return bad
    if res[0] != 'ok':
        if not (inf and ap == 'objectNA'):      # EPD() of that cell is meaningless; generate_rays rejects it
            bad.append({'kind': 'origins-raise', 'error': list(res[1:]), 'cell': [inf, ft, tele, ap]})
        return bad
    x, y, z = res[1]
    mf = max(math.hypot(f.x, f.y) for f in entered_fields(spec))
    ps = paraxcorr.psurfs(o)
    scale = 1 + abs(x) + abs(y)
    if not inf and ft == 'object_height':
        if abs(x - Hx * mf) > 1e-9 * scale or abs(y - Hy * mf) > 1e-9 * scale:
            bad.append({'kind': 'object-height', 'origin': [x, y], 'expected': [Hx * mf, Hy * mf]})
        return bad
    if inf and ap == 'objectNA':
        return bad
    q = oracles.abcd_quantities(ps, ap, spec['aperture'][1], ft, mf)
    EPL, EPD = q.get('EPL'), q.get('EPD')
    if EPL is None or EPD is None or not (math.isfinite(EPL) and math.isfinite(EPD)) or not all(map(math.isfinite, (x, y, z))):
        return bad
    # the ray from the origin to its own pupil point (Px vx EPD/2, Py vy EPD/2, EPL) makes the field angles
    dx, dy, dz = Px * vx * EPD / 2 - x, Py * vy * EPD / 2 - y, EPL - z
    if inf:
        if dz <= 0:
            bad.append({'kind': 'launched-backwards', 'launch_z': z, 'EPL': EPL, 'N': dz})
            return bad
    elif Px != 0 or Py != 0:
        dx, dy = -x, -y            # finite object: only the chief ray carries the field angle
    if dz != 0:
        ty, tx = math.tan(math.radians(Hy * mf)), math.tan(math.radians(Hx * mf))
        if abs(dy / dz - ty) > 1e-9 * (1 + abs(ty)) or abs(abs(dx / dz) - abs(tx)) > 1e-9 * (1 + abs(tx)):
            bad.append({'kind': 'field-angle', 'tan_y': dy / dz, 'expected_tan_y': ty, 'tan_x_abs': abs(dx / dz),
                        'expected_tan_x_abs': abs(tx)})
    return bad


def entered_object_index(spec):
    """index of the object space as ENTERED: object_material ['ideal', n, k] (or object_index), air otherwise"""
    om = spec.get('object_material')
    if om and om[0] == 'ideal':
        return float(om[1])
    return float(spec.get('object_index') or 1.0)


def entered_vig(spec, Hx, Hy):
    """vignetting factors of the field (Hx, Hy) from the ENTERED field list (numpy interp over the y-sorted fields,
    normalised by the largest y field, as documented); None when the list has x fields"""
    fl = entered_fields(spec)
    if any(f.x != 0 for f in fl):
        return None
    fys = [f.y for f in fl]
    my = max(fys)
    order = sorted(range(len(fys)), key=lambda i: fys[i])
    hs = [fys[i] / my if my != 0 else 0.0 for i in order]
    h = math.hypot(Hx, Hy)
    return (interp_oracle(h, hs, [fl[i].vx for i in order]), interp_oracle(h, hs, [fl[i].vy for i in order]))


def check_launch(o, spec, ray, res, tol=1e-8):
    """ray = (Hx, Hy, Px, Py, w); res = impl_launch result.  Returns a list of violation dicts.
    Px, Py are the pupil coordinates handed to generate_rays; the generator's own (1 - v) factor is part of the aim."""
    import numpy as np
    import oracles, paraxcorr
    Hx, Hy, Px, Py, w = ray
    bad = []
    inf = math.isinf(spec['object_thickness'])
    ft, tele, ap = spec['field_type'], bool(spec.get('telecentric')), spec['aperture'][0]
    rules = must_reject(inf, ft, tele, ap)
    bad.extend(check_max_field(o, spec))       # reported together with the launch clause it breaks
    if any(f.x != 0 for f in entered_fields(spec)):
        # get_vig_factor refuses lenses with x fields (NotImplementedError) before anything else: a loud refusal, not a trace
        if res[0] == 'ok' or res[1] != 'NotImplementedError':
            bad.append({'kind': 'x-fields-traced-without-vignetting-model', 'result': list(res[:2])})
        return bad
    if rules:
        if res[0] == 'ok':
            bad.append({'kind': 'not-rejected', 'rules': rules, 'cell': [inf, ft, tele, ap]})
        elif res[1] != 'ValueError':
            bad.append({'kind': 'rejected-with-wrong-error', 'error': res[1], 'cell': [inf, ft, tele, ap]})
        return bad
    if res[0] != 'ok':
        bad.append({'kind': 'valid-cell-raises', 'error': list(res[1:]), 'cell': [inf, ft, tele, ap]})
        return bad
    x, y, z, L, M, N, inten, ww, opd = res[1]
    ps = paraxcorr.psurfs(o)
    # object distance and object-space index as ENTERED (the lens surfaces are guarded by entered_problems)
    ps[0] = dict(ps[0], z=-float(spec['object_thickness']), npost=entered_object_index(spec))
    strict = bool(spec.get('strict_oracle'))
    mf = max(math.hypot(f.x, f.y) for f in entered_fields(spec))
    q = oracles.abcd_quantities(ps, ap, spec['aperture'][1], ft, mf)
    finite = all(math.isfinite(v) for v in (x, y, z, L, M, N))
    if not tele and not all(v is not None and math.isfinite(v) for v in (q.get('EPL'), q.get('EPD'))):
        return bad          # degenerate prescription (afocal lens with an image F-number, pupil at infinity): no claim
    if not finite:
        bad.append({'kind': 'non-finite-launch', 'record': res[1]})
        return bad
    if abs(L * L + M * M + N * N - 1) > 1e-9:
        bad.append({'kind': 'direction-not-unit', 'norm2': L * L + M * M + N * N})
    if inten != 1.0:
        bad.append({'kind': 'intensity', 'value': inten})
    if opd != 0.0:
        bad.append({'kind': 'path-length', 'value': opd})
    if ww != w:
        bad.append({'kind': 'wavelength', 'value': ww, 'requested': w})
    eflds = entered_fields(spec)
    fys = [f.y for f in eflds]
    # vignetting of this field (independent: numpy interp over the sorted field list)
    my = max(fys)
    order = sorted(range(len(fys)), key=lambda i: fys[i])
    hs = [fys[i] / my if my != 0 else 0.0 for i in order]
    h = math.hypot(Hx, Hy)
    v0 = interp_oracle(h, hs, [eflds[i].vx for i in order])
    v1 = interp_oracle(h, hs, [eflds[i].vy for i in order])
    scale = 1 + abs(x) + abs(y) + abs(z)
    if strict:
        # lateral clauses are not relaxed by a large object distance
        scale = 1 + abs(Hx * mf) + abs(Hy * mf)
    if tele:
        n0 = entered_object_index(spec)
        sin_t = spec['aperture'][1] / n0          # NA = n sin(theta)
        # origin on the object at the field height
        if abs(x - Hx * mf) > tol * scale or abs(y - Hy * mf) > tol * scale:
            bad.append({'kind': 'object-height', 'origin': [x, y], 'expected': [Hx * mf, Hy * mf]})
        # chief ray parallel to the axis; the full-pupil ray makes sin(theta) = NA / n
        if Px == 0 and Py == 0 and (abs(L) > tol or abs(M) > tol or N <= 0):
            bad.append({'kind': 'telecentric-chief-not-parallel', 'direction': [L, M, N]})
        pr = math.hypot(Px * (1 - v0), Py * (1 - v1))
        if pr > 0:
            # the pupil point at normalised radius pr is reached by a ray with tan(theta) = pr * tan(theta_max)
            tmax = sin_t / math.sqrt(1 - sin_t ** 2)
            tan_t = math.hypot(L, M) / N if N > 0 else float('nan')
            if not abs(tan_t - pr * tmax) <= 1e-7 * (1 + tmax):
                bad.append({'kind': 'telecentric-numerical-aperture', 'tan_theta': tan_t, 'expected': pr * tmax,
                            'object_index': n0, 'NA': spec['aperture'][1]})
        return bad
    EPL, EPD = q.get('EPL'), q.get('EPD')
    if EPL is None or EPD is None or not (math.isfinite(EPL) and math.isfinite(EPD)):
        return bad
    # aim point on the paraxial entrance pupil plane
    if N == 0:
        bad.append({'kind': 'launch-perpendicular-to-axis'})
        return bad
    t = (EPL - z) / N
    ax, ay = x + t * L, y + t * M
    ex, ey = Px * (1 - v0) * EPD / 2, Py * (1 - v1) * EPD / 2
    s2 = 1 + abs(ex) + abs(ey) + abs(EPD)
    atol = 1e-7 * s2 * (1 + abs(t) * 1e-3)
    if strict:
        # the aim error of a correctly rounded direction is relative to the lateral extent, not to the path length
        atol = 1e-7 * (s2 + abs(x) + abs(y))
    if abs(ax - ex) > atol or abs(ay - ey) > atol:
        bad.append({'kind': 'aim-point', 'hits_pupil_plane_at': [ax, ay], 'expected': [ex, ey], 'EPL': EPL, 'EPD': EPD})
    if t < 0:
        bad.append({'kind': 'launched-backwards', 'N': N, 'launch_z': z, 'EPL': EPL,
                    'detail': 'the entrance pupil lies behind the launch point along the ray'})
    if inf:
        th = math.radians(Hy * mf)
        if N <= 0:
            if not any(b['kind'] == 'launched-backwards' for b in bad):
                bad.append({'kind': 'launched-backwards', 'N': N, 'launch_z': z, 'EPL': EPL})
        elif abs(M / N - math.tan(th)) > 1e-9 * (1 + abs(math.tan(th))):
            bad.append({'kind': 'field-angle', 'tan_y': M / N, 'expected': math.tan(th)})
        if N > 0 and abs(abs(L / N) - abs(math.tan(math.radians(Hx * mf)))) > 1e-9:
            bad.append({'kind': 'field-angle-x', 'tan_x': L / N, 'expected_abs': math.tan(math.radians(Hx * mf))})
    else:
        objz = -float(spec['object_thickness'])
        zscale = scale + abs(objz) if strict else scale
        if ft == 'object_height':
            if abs(x - Hx * mf) > tol * scale or abs(y - Hy * mf) > tol * scale:
                bad.append({'kind': 'object-height', 'origin': [x, y], 'expected': [Hx * mf, Hy * mf]})
            R = spec.get('object_radius')
            r2 = x * x + y * y
            sag = 0.0 if not R else r2 / (R * (1 + math.sqrt(1 - r2 / R ** 2)))
            if abs(z - (objz + sag)) > tol * zscale:
                bad.append({'kind': 'origin-not-on-object', 'z': z, 'expected': objz + sag})
        else:
            # angle fields, finite object: the chief ray makes the field angle with the axis and starts on the object plane
            if abs(z - objz) > tol * zscale:
                bad.append({'kind': 'origin-not-on-object', 'z': z, 'expected': objz})
            th = math.radians(Hy * mf)
            yexp = -math.tan(th) * (EPL - objz)
            if abs(y - yexp) > 1e-7 * (1 + abs(yexp)):
                bad.append({'kind': 'field-angle', 'origin_y': y, 'expected': yexp})
    return bad


def check_trace_launch(o, spec, name, n, Hy, w, recs):
    """Optic.trace(0, Hy, w, n, name): recs = launch records [x y z L M N] of every ray.  The named sampling must deliver
    its documented count, every aim point must lie inside the entrance pupil, and no further from the axis than
    the unvignetted sampling point it came from (vignetting can only shrink)."""
    import numpy as np
    import oracles, paraxcorr
    from optiland.distribution import create_distribution
    bad = []
    if spec.get('telecentric'):
        return bad
    d0 = create_distribution(name)
    d0.generate_points(n, 0.0, 0.0)
    x0, y0 = np.asarray(d0.x, dtype=float), np.asarray(d0.y, dtype=float)
    if len(recs) != len(x0):
        bad.append({'kind': 'trace-count', 'rays': len(recs), 'sampling_points': len(x0)})
        return bad
    ps = paraxcorr.psurfs(o)
    mf = max(math.hypot(f.x, f.y) for f in entered_fields(spec))
    q = oracles.abcd_quantities(ps, spec['aperture'][0], spec['aperture'][1], spec['field_type'], mf)
    EPL, EPD = q.get('EPL'), q.get('EPD')
    if EPL is None or EPD is None or not (math.isfinite(EPL) and math.isfinite(EPD)) or EPD == 0:
        return bad
    for k, (x, y, z, L, M, N) in enumerate(recs):
        if not all(math.isfinite(v) for v in (x, y, z, L, M, N)) or N == 0:
            continue
        t = (EPL - z) / N
        px, py = (x + t * L) / (EPD / 2), (y + t * M) / (EPD / 2)
        tol = 1e-7 * (1 + abs(t) * 1e-3)
        if px * px + py * py > 1 + tol:
            bad.append({'kind': 'aim-outside-pupil', 'ray': k, 'pupil_point': [px, py]})
            break
        if abs(px) > abs(x0[k]) + tol or abs(py) > abs(y0[k]) + tol or px * x0[k] < -tol or py * y0[k] < -tol:
            bad.append({'kind': 'vignetting-enlarges-pupil', 'ray': k, 'pupil_point': [px, py],
                        'unvignetted': [float(x0[k]), float(y0[k])]})
            break
    return bad

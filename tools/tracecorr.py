"""System-level correspondence of Model/Trace.v with optiland's real ray trace."""
import sys
import numpy as np
import vlib
import lensgen

sys.path.insert(0, vlib.REPO)


def impl_trace(optic, Hx, Hy, Px, Py, w, records_check=False):
    """one ray through the implementation; returns (launch(9), records[list of 8-lists]) or ('err', type)"""
    try:
        optic.trace_generic(np.array([Hx], dtype=float), np.array([Hy], dtype=float),
                            np.array([Px], dtype=float), np.array([Py], dtype=float), w)
    except Exception as e:   # noqa
        return ('err', type(e).__name__, str(e)[:120])
    sg = optic.surface_group
    cols = [sg.x, sg.y, sg.z, sg.L, sg.M, sg.N, sg.intensity, sg.opd]
    nsurf = len(sg.surfaces)
    shapes = [tuple(np.shape(c)) for c in cols]
    if any(sh != (nsurf, 1) for sh in shapes):
        # the per-surface records are not those of the traced ray (a row per surface, one column for the one ray)
        return ('records', shapes, nsurf) if records_check else ('err', 'RecordShape', str(shapes))
    nrec = cols[0].shape[0]
    recs = [[float(c[k, 0]) for c in cols] for k in range(nrec)]
    return ('ok', recs)


def coq_ray(rec, w):
    fh = vlib.fhex
    x, y, z, L, M, N, i, opd = rec
    return f'(mkRay (O:=FOps) {fh(x)} {fh(y)} {fh(z)} {fh(L)} {fh(M)} {fh(N)} {fh(i)} {fh(w)} {fh(opd)})'


def run(cases, tol=1e-9, tag='trace', chunk=60):
    """cases: list of dict(surfs=[model surf dicts], w=float, launch=rec, expect=[recs] or None(raised))
    returns per-case ok flags (list of bool) or raises RuntimeError"""
    bodies = []
    index = []
    for start in range(0, len(cases), chunk):
        defs = []
        lines = []
        for ci in range(start, min(start + chunk, len(cases))):
            c = cases[ci]
            surfs = '[' + ';\n  '.join(lensgen.coq_surf(s, vlib.fhex) for s in c['surfs']) + ']'
            defs.append(f'Definition l{ci} := {surfs}.')
            call = f'trace l{ci} {coq_ray(c["launch"], c["w"])}'
            if c['expect'] is None:
                lines.append(f'match {call} with None => true | Some _ => false end')
            else:
                flat = [v for rec in c['expect'] for v in rec]
                lines.append(f'match {call} with None => false | Some l => close_list {vlib.fhex(tol)} '
                             f'(flat_map ray_fields l) {vlib.flist(flat)} end')
        bodies.append('\n'.join(defs) + '\nEval vm_compute in (report [\n' + ';\n'.join(lines) + '\n]).\n')
        index.append(start)
    res = vlib.run_cases(tag, 'From OV Require Import Model.Trace.', bodies)
    ok = [True] * len(cases)
    for start, r in zip(index, res):
        if r[0] == 'error':
            raise RuntimeError(r[1])
        for i in r[2]:
            ok[start + i] = False
        if r[1] > len(r[2]):
            # more failures than listed: mark unknown ones conservatively by re-running smaller? mark all listed only
            pass
    return ok, res

"""C19 harness library: lens recipes (lensgen spec + decorations + edit history), extraction of the typed
codec state from the ATTRIBUTES of real optiland objects, rendering to Coq (Model/M_C19_Run.v), the
property oracle on the implementation, and classification of violations by call site."""
import copy
import random
import json
import math
import sys
import warnings

import numpy as np

import lensgen
import vlib

sys.path.insert(0, vlib.REPO)
warnings.simplefilter('ignore')

INTKEYS = {'max_iter', 'source_surface_idx', 'target_surface_idx', 'surface_idx'}


class Unrepresentable(Exception):
    pass


# --------------------------------------------------------------------------------------------------
# recipes
# --------------------------------------------------------------------------------------------------
def gen_recipe(rng, i):
    """JSON-able description of a lens built through the public API, with every serialisable feature
    appearing regularly, followed by an edit history."""
    spec = lensgen.gen_spec(rng, nsurf=rng.choice([1, 2, 3, 3, 4, 5, 6, 8]))
    n = len(spec['surfaces'])
    ex = {}
    if rng.random() < 0.3:
        ex['wave_unit'] = rng.choice(['nm', 'mm', 'UM'])
    if rng.random() < 0.25:
        ex['bsdf'] = [[rng.randrange(1, n + 1), rng.choice([['lambert'], ['gauss', rng.uniform(0.01, 0.2)]])]]
    if rng.random() < 0.3:
        k = rng.randrange(1, n + 1)
        ex['materials'] = [[k, rng.choice([['abbe', rng.uniform(1.45, 1.8), rng.uniform(25, 65)],
                                           ['file', rng.choice(lensgen.GLASSES)],
                                           ['catalog', rng.choice(lensgen.GLASSES), 'schott', True,
                                            rng.choice([None, 0.3]), rng.choice([None, 2.0])],
                                           ['mirrorclass']])]]
    if rng.random() < 0.2:
        ex['ref_cs'] = [[rng.randrange(1, n + 1), [rng.uniform(-0.1, 0.1), rng.uniform(-0.1, 0.1), 0.0,
                                                   rng.uniform(-0.01, 0.01), 0.0, 0.0]]]
    if rng.random() < 0.15:
        ex['telecentric'] = [rng.random() < 0.5, rng.random() < 0.5, rng.random() < 0.5]
    if i % 9 == 4:
        ex['fresnel'] = True
    if i % 11 == 5:
        ex['polarization'] = rng.choice([[False, None, None, None, None],
                                         [True, rng.uniform(0.1, 1), rng.uniform(0.1, 1), 0.0, rng.uniform(0, 1.5)]])
    if i % 13 == 6:
        ex['image_class'] = True
    if i % 17 == 7:
        ex['no_aperture'] = True
    edits = []
    std = [j + 1 for j, s in enumerate(spec['surfaces']) if s.get('type', 'standard') == 'standard'
           and math.isfinite(s.get('radius', math.inf))]
    even = [j + 1 for j, s in enumerate(spec['surfaces']) if s.get('type') == 'even_asphere']
    r = rng.random()
    nops = 0 if r < 0.35 else rng.choice([1, 1, 2, 3, 5])
    for _ in range(nops):
        kind = rng.choice(['set_radius', 'set_conic', 'set_thickness', 'set_index', 'set_asphere_coeff', 'scale',
                           'image_solve', 'pickup_radius', 'pickup_conic', 'pickup_thickness', 'solve', 'update',
                           'optimise', 'stale_pickup', 'remove_surface', 'add_surface', 'conic_on_flat'])
        if kind == 'set_radius':
            edits.append(['set_radius', math.inf if rng.random() < 0.15 else rng.uniform(30, 200) * rng.choice([-1, 1]),
                          rng.randrange(1, n + 1)])
        elif kind == 'conic_on_flat':
            k = rng.randrange(1, n + 1)
            edits.append(['set_conic', rng.uniform(-1.5, -0.2), k])
            edits.append(['set_radius', math.inf, k])
        elif kind == 'remove_surface' and n >= 2:
            stop = [j + 1 for j, s in enumerate(spec['surfaces']) if s.get('is_stop')]
            cand = [k for k in range(1, n + 1) if k not in stop] if not any(e[0] in ('remove_surface', 'add_surface') for e in edits) \
                else list(range(1, n + 1))
            edits.append(['remove_surface', rng.choice(cand)])
            n -= 1
            std, even = [], []
        elif kind == 'add_surface':
            k = rng.randrange(1, n + 2)
            edits.append(['add_surface', k, rng.choice([math.inf, rng.uniform(30, 150) * rng.choice([-1, 1])]),
                          rng.uniform(1.0, 6.0), rng.choice(['air', ['ideal', rng.uniform(1.4, 1.8), 0.0]])])
            n += 1
            std, even = [], []
        elif kind == 'set_conic' and std:
            edits.append(['set_conic', rng.uniform(-1.5, 0.5), rng.choice(std)])
        elif kind == 'set_thickness' and n >= 2:
            edits.append(['set_thickness', rng.uniform(1.0, 12.0), rng.randrange(1, n)] if rng.random() < 0.85
                         else ['set_thickness', rng.uniform(50.0, 300.0), 0])
        elif kind == 'set_index' and n >= 2:
            edits.append(['set_index', rng.uniform(1.4, 1.9), rng.randrange(1, n)])
        elif kind == 'set_asphere_coeff' and even:
            edits.append(['set_asphere_coeff', rng.uniform(-1e-5, 1e-5), rng.choice(even), 0])
        elif kind == 'scale':
            edits.append(['scale', rng.choice([0.5, 2.0, rng.uniform(0.3, 3.0)])])
        elif kind == 'image_solve':
            edits.append(['image_solve'])
        elif kind == 'pickup_radius' and n >= 2:
            a, b = rng.sample(range(1, n + 1), 2)
            edits.append(['pickup', a, 'radius', b, rng.choice([-1.0, 1.0, 0.5]), rng.choice([0.0, 1.5])])
        elif kind == 'pickup_conic' and len(std) >= 2:
            a, b = rng.sample(std, 2)
            edits.append(['pickup', a, 'conic', b, 1.0, 0.0])
        elif kind == 'pickup_thickness' and n >= 3:
            a, b = rng.sample(range(1, n), 2)
            edits.append(['pickup', a, 'thickness', b, 1.0, rng.choice([0.0, 0.25])])
        elif kind == 'solve':
            edits.append(['solve', n + 1, 0.0])
        elif kind == 'update':
            edits.append(['update'])
        elif kind == 'optimise' and i % 3 == 0:
            edits.append(['optimise', rng.choice(['radius', 'thickness', 'index']), rng.randrange(1, max(2, n))])
        elif kind == 'stale_pickup' and n >= 2:
            a, b = rng.sample(range(1, n + 1), 2)
            edits.append(['pickup', a, 'radius', b, -1.0, 0.0])
            edits.append(['set_radius', rng.uniform(30, 200), a])
    if i % 4 == 1:
        # values spanning many decades; own random stream, so the recipes of the other classes do not move
        spread_decades(spec, ex, random.Random(1000003 * i + 17))
    return {'spec': spec, 'extras': ex, 'edits': edits}


def _mant(r):
    return r.uniform(1.0, 9.9) * r.choice([-1, 1])


def spread_decades(spec, ex, r):
    """rewrite prescription values so that legitimate entries range from 1e-22 to 1e+6: high-order aspheric /
    polynomial / Chebyshev coefficients (r^10 and up in mm are 1e-16 ... 1e-22), arc-second-of-arc-second tilts and
    decentres, weak absorption, faint coatings, a very long radius"""
    ex['decades'] = True
    surfs = spec['surfaces']
    for s in surfs:
        t = s.get('type', 'standard')
        if t == 'even_asphere':
            s['coefficients'] = [0.0] + [_mant(r) * 10.0 ** (-6 - 4 * j - r.choice([0, 1])) for j in range(r.choice([4, 5, 6]))]
        elif t in ('polynomial', 'chebyshev'):
            s['coefficients'] = [[(_mant(r) * 10.0 ** (-3 - 5 * (a + b))) if a + b > 0 else 0.0
                                  for b in range(len(row))] for a, row in enumerate(s['coefficients'])]
        if r.random() < 0.5:
            s['dx'], s['dy'] = _mant(r) * 1e-17, _mant(r) * 1e-19
            s['rx'], s['ry'] = _mant(r) * 1e-18, s.get('ry', 0.0)
        m = s.get('material')
        if isinstance(m, list) and m[0] == 'ideal' and r.random() < 0.6:
            m[2] = abs(_mant(r)) * 10.0 ** r.choice([-16, -19, -22])
        if s.get('coating') and r.random() < 0.7:
            s['coating'][1] = abs(_mant(r)) * 1e-17
        if s.get('aperture') and r.random() < 0.7:
            s['aperture'][1] = abs(_mant(r)) * 1e-20
    if not any(s.get('type', 'standard') != 'standard' for s in surfs):
        # make sure there is at least one surface with a long coefficient list
        s = surfs[r.randrange(len(surfs))]
        if math.isfinite(s.get('radius', math.inf)):
            s['type'] = 'even_asphere'
            s.setdefault('conic', 0.0)
            s['coefficients'] = [0.0] + [_mant(r) * 10.0 ** (-6 - 4 * j) for j in range(6)]
    k = r.randrange(len(surfs))
    if surfs[k].get('type', 'standard') == 'standard' and math.isfinite(surfs[k].get('radius', math.inf)):
        surfs[k]['radius'] = _mant(r) * 1e5
    for f in spec['fields'][1:]:
        f[2], f[3] = abs(_mant(r)) * 1e-17, abs(_mant(r)) * 1e-16


def corpus():
    """fixed recipes (independent of every random stream) for the input classes that caught something once"""
    INF = math.inf
    air = 'air'

    def base(surfs, waves=None, fields=None, obj=INF, ap=None, ft='angle'):
        return {'object_thickness': obj, 'surfaces': surfs, 'aperture': ap or ['EPD', 10.0], 'field_type': ft,
                'fields': fields or [[0.0, 0.0, 0.0, 0.0], [2.0, 0.0, 0.0, 0.0]],
                'wavelengths': waves or [[0.4861, False], [0.5876, True], [0.6563, False]], 'telecentric': False}
    asph = {'type': 'even_asphere', 'thickness': 6.0, 'is_stop': True, 'radius': 62.0, 'conic': -0.6,
            'coefficients': [0.0, -1.7e-06, 2.9e-10, -5.3e-14, 7.7e-17, -3.1e-19, 2.3e-22],
            'material': ['ideal', 1.5168, 3.0e-19]}
    flat = {'type': 'standard', 'thickness': 70.0, 'is_stop': False, 'radius': INF, 'material': air}
    poly = {'type': 'polynomial', 'thickness': 4.0, 'is_stop': True, 'radius': 2.5e5, 'conic': 0.0,
            'coefficients': [[0.0, 1.0e-4, -3.0e-9], [2.0e-4, 5.0e-13, 8.0e-17], [-6.0e-9, 4.0e-18, -9.0e-22]],
            'material': ['ideal', 1.62, 0.0], 'dx': 4.0e-17, 'dy': -2.0e-19, 'rx': 3.0e-18, 'ry': 0.0}
    cheb = {'type': 'chebyshev', 'thickness': 60.0, 'is_stop': False, 'radius': -90.0, 'conic': 0.0,
            'coefficients': [[0.0, 2.0e-3], [-1.0e-3, 6.0e-16], [7.0e-20, -5.0e-22]], 'norm_x': 40.0, 'norm_y': 40.0,
            'material': air, 'coating': [0.97, 4.0e-17], 'aperture': [9.0, 6.0e-21]}
    sph1 = {'type': 'standard', 'thickness': 5.0, 'is_stop': True, 'radius': 60.0, 'material': ['glass', 'N-BK7', 'schott']}
    sph2 = {'type': 'standard', 'thickness': 2.0, 'is_stop': False, 'radius': -45.0, 'material': ['glass', 'SF6', 'schott']}
    sph3 = {'type': 'standard', 'thickness': 80.0, 'is_stop': False, 'radius': -120.0, 'conic': -1.0, 'material': air}
    return [
        {'spec': base([asph, flat]), 'extras': {'corpus': 'asphere-decades'}, 'edits': []},
        {'spec': base([poly, cheb], fields=[[0.0, 0.0, 0.0, 0.0], [1.5, 0.0, 3.0e-17, 2.0e-16]]),
         'extras': {'corpus': 'freeform-decades'}, 'edits': [['pickup', 1, 'radius', 2, -1.0e-3, 5.0e-18]]},
        {'spec': base([sph1, sph2, sph3]), 'extras': {'corpus': 'doublet-remove-surface', 'wave_unit': 'nm'},
         'edits': [['remove_surface', 2]]},
        {'spec': base([sph1, sph2, sph3], obj=250.0, ft='object_height'),
         'extras': {'corpus': 'doublet-insert-and-edit'},
         'edits': [['add_surface', 2, 75.0, 1.5, ['ideal', 1.7, 2.0e-16]], ['set_thickness', 3.0, 1], ['set_conic', -0.8, 1],
                   ['set_radius', INF, 1], ['scale', 1.0e-3], ['pickup', 3, 'conic', 4, 1.0, 0.0], ['solve', 5, 0.0]]},
        {'spec': base([asph, sph3]), 'extras': {'corpus': 'fresnel-polarized', 'fresnel': True,
                                                'polarization': [True, 0.6, 0.8, 0.0, 1.0e-17]}, 'edits': [['image_solve']]},
        {'spec': base([sph1, flat]), 'extras': {'corpus': 'image-class-no-aperture', 'image_class': True, 'no_aperture': True,
                                                'bsdf': [[2, ['gauss', 3.0e-16]]]}, 'edits': []},
    ]


def apply_op(o, op):
    k = op[0]
    if k == 'set_radius':
        o.set_radius(op[1], op[2])
    elif k == 'set_conic':
        o.set_conic(op[1], op[2])
    elif k == 'set_thickness':
        o.set_thickness(op[1], op[2])
    elif k == 'set_index':
        o.set_index(op[1], op[2])
    elif k == 'set_asphere_coeff':
        o.set_asphere_coeff(op[1], op[2], op[3])
    elif k == 'scale':
        o.scale_system(op[1])
    elif k == 'image_solve':
        o.image_solve()
    elif k == 'pickup':
        o.pickups.add(op[1], op[2], op[3], scale=op[4], offset=op[5])
    elif k == 'solve':
        o.solves.add('marginal_ray_height', op[1], op[2])
    elif k == 'update':
        o.update()
    elif k == 'remove_surface':
        o.surface_group.remove_surface(op[1])
    elif k == 'add_surface':
        from optiland.materials import IdealMaterial
        m = op[4] if isinstance(op[4], str) else IdealMaterial(n=op[4][1], k=op[4][2])
        o.add_surface(index=op[1], radius=op[2], thickness=op[3], material=m)
    elif k == 'optimise':
        from optiland import optimization
        prob = optimization.OptimizationProblem()
        prob.add_operand(operand_type='f2', target=o.paraxial.f2() * 1.01, weight=1, input_data={'optic': o})
        prob.add_variable(o, op[1], surface_number=op[2], **({'wavelength': 0.55} if op[1] == 'index' else {}))
        opt = optimization.OptimizerGeneric(prob)
        opt.optimize(maxiter=2, disp=False, tol=1e-3)
    else:
        raise ValueError(k)


def build_recipe(rec, upto=None, on_step=None):
    """build the lens; on_step(o, op_index, op) is called before each edit (op_index = -1: after construction)"""
    from optiland.materials import AbbeMaterial, Material, MaterialFile, Mirror
    from optiland.coordinate_system import CoordinateSystem
    from optiland.scatter import LambertianBSDF, GaussianBSDF
    from optiland.rays import PolarizationState
    from optiland.surfaces.image_surface import ImageSurface
    spec = copy.deepcopy(rec['spec'])
    ex = rec.get('extras', {})
    if ex.get('wave_unit'):
        u = ex['wave_unit']
        f = {'nm': 1000.0, 'mm': 0.001, 'UM': 1.0}[u]
    o = lensgen.build(dict(spec, wavelengths=[]) if ex.get('wave_unit') else spec)
    if ex.get('wave_unit'):
        for w, prim in spec['wavelengths']:
            o.add_wavelength(w * f, is_primary=prim, unit=u)
    ss = o.surface_group.surfaces
    for k, b in ex.get('bsdf', []):
        ss[k].bsdf = LambertianBSDF() if b[0] == 'lambert' else GaussianBSDF(b[1])
    for k, m in ex.get('materials', []):
        if m[0] == 'abbe':
            mat = AbbeMaterial(m[1], m[2])
        elif m[0] == 'file':
            mat = MaterialFile(Material(m[1]).filename)
        elif m[0] == 'catalog':
            mat = Material(m[1], m[2], m[3], m[4], m[5])
        else:
            mat = Mirror()
        ss[k].material_post = mat
        if k + 1 < len(ss):
            ss[k + 1].material_pre = mat
    for k, c in ex.get('ref_cs', []):
        ss[k].geometry.cs.reference_cs = CoordinateSystem(*c)
    if 'telecentric' in ex:
        o.obj_space_telecentric = ex['telecentric'][0]
        o.fields.set_telecentric(ex['telecentric'][1])
        if o.aperture is not None and o.aperture.ap_type not in ('EPD', 'imageFNO'):
            o.aperture.object_space_telecentric = ex['telecentric'][2]
    if ex.get('fresnel'):
        o.surface_group.set_fresnel_coatings()
    if ex.get('polarization'):
        p = ex['polarization']
        o.set_polarization(PolarizationState(is_polarized=p[0], Ex=p[1], Ey=p[2], phase_x=p[3], phase_y=p[4]))
    if ex.get('image_class'):
        last = ss[-1]
        o.surface_group.surfaces[-1] = ImageSurface(last.geometry, last.material_pre, last.aperture)
    if ex.get('no_aperture'):
        o.aperture = None
    if on_step:
        on_step(o, -1, None)
    for j, op in enumerate(rec.get('edits', [])[:upto]):
        apply_op(o, op)
        if on_step:
            on_step(o, j, op)
    return o


# --------------------------------------------------------------------------------------------------
# typed state from attributes
# --------------------------------------------------------------------------------------------------
def _num(v, issues, path):
    if isinstance(v, (bool, np.bool_)):
        raise Unrepresentable(f'{path}: bool where a number is expected')
    if isinstance(v, (int, float, np.floating, np.integer)):
        return float(v)
    if isinstance(v, np.ndarray):
        issues.append(['ndarray', path, list(v.shape)])
        if v.size == 1:
            return float(v.ravel()[0])
    raise Unrepresentable(f'{path}: {type(v).__name__}')


def _onum(v, issues, path):
    return None if v is None else _num(v, issues, path)


def _int(v, issues, path):
    if isinstance(v, (int, np.integer)) and not isinstance(v, bool):
        return int(v)
    raise Unrepresentable(f'{path}: {type(v).__name__} where an int is expected')


def x_cs(c, issues, path):
    return ('CS',) + tuple(_num(getattr(c, a), issues, f'{path}.{a}') for a in ('x', 'y', 'z', 'rx', 'ry', 'rz')) + (
        x_cs(c.reference_cs, issues, path + '.reference_cs') if c.reference_cs else None,)


def _nums(v, issues, path):
    if isinstance(v, np.ndarray):
        if v.ndim != 1:
            raise Unrepresentable(f'{path}: ndarray of shape {v.shape}')
        issues.append(['ndarray-list', path, list(v.shape)])
    return [_num(x, issues, f'{path}[{i}]') for i, x in enumerate(v)]


def x_geom(g, issues, path):
    t = type(g).__name__
    cs = x_cs(g.cs, issues, path + '.cs')
    if t == 'Plane':
        # a conic given to the flat surface lives in the attribute k; every reader uses getattr(.., 'k', 0)
        k = getattr(g, 'k', 0)
        k = _num(k, issues, path + '.k')
        return ('GPlane', cs, k if k != 0.0 else None)
    R = _num(g.radius, issues, path + '.radius')
    k = _num(g.k, issues, path + '.k')
    if t == 'StandardGeometry':
        return ('GStd', cs, R, k)
    tol = _num(g.tol, issues, path + '.tol')
    mi = _int(g.max_iter, issues, path + '.max_iter')
    if t == 'EvenAsphere':
        return ('GEven', cs, R, k, tol, mi, _nums(g.c, issues, path + '.c'))
    c2 = [[_num(x, issues, path + '.c') for x in row] for row in np.asarray(g.c)]
    if t == 'PolynomialGeometry':
        return ('GPoly', cs, R, k, tol, mi, c2)
    if t == 'ChebyshevPolynomialGeometry':
        return ('GCheb', cs, R, k, tol, mi, c2, _num(g.norm_x, issues, path + '.norm_x'),
                _num(g.norm_y, issues, path + '.norm_y'))
    raise Unrepresentable(f'{path}: geometry class {t}')


def x_material(m, issues, path, cat):
    t = type(m).__name__
    if t == 'IdealMaterial':
        return ('MIdeal', _num(m.index, issues, path + '.index'), _num(m.absorp, issues, path + '.absorp'))
    if t == 'Mirror':
        if float(m.index) != -1.0 or float(m.absorp) != 0.0:
            raise Unrepresentable(f'{path}: Mirror with edited index')
        return ('MMirror',)
    if t == 'AbbeMaterial':
        return ('MAbbe', _num(m.index, issues, path + '.index'), _num(m.abbe, issues, path + '.abbe'))
    if t == 'Material':
        key = (m.name, m.reference, bool(m.robust))
        cat[key] = m.filename
        return ('MCatalog', m.name, m.reference, bool(m.robust), _onum(m.min_wavelength, issues, path),
                _onum(m.max_wavelength, issues, path))
    if t == 'MaterialFile':
        return ('MFile', m.filename)
    raise Unrepresentable(f'{path}: material class {t}')


def x_surface(s, issues, path, cat):
    t = type(s).__name__
    g = x_geom(s.geometry, issues, path + '.geometry')
    ap = None
    if s.aperture is not None:
        if type(s.aperture).__name__ != 'RadialAperture':
            raise Unrepresentable(path + '.aperture class')
        ap = ('PRadial', _num(s.aperture.r_max, issues, path + '.aperture.r_max'),
              _num(s.aperture.r_min, issues, path + '.aperture.r_min'))
    if t == 'ObjectSurface':
        return ('SObject', g, x_material(s.material_post, issues, path + '.material_post', cat))
    pre = x_material(s.material_pre, issues, path + '.material_pre', cat)
    post = x_material(s.material_post, issues, path + '.material_post', cat)
    co = None
    if s.coating is not None:
        ct = type(s.coating).__name__
        if ct == 'SimpleCoating':
            co = ('CSimple', _num(s.coating.transmittance, issues, path + '.coating.t'),
                  _num(s.coating.reflectance, issues, path + '.coating.r'))
        elif ct == 'FresnelCoating':
            co = ('CFresnel', x_material(s.coating.material_pre, issues, path + '.coating.pre', cat),
                  x_material(s.coating.material_post, issues, path + '.coating.post', cat))
        else:
            raise Unrepresentable(path + '.coating class ' + ct)
    bs = None
    if s.bsdf is not None:
        bt = type(s.bsdf).__name__
        bs = ('BLambert',) if bt == 'LambertianBSDF' else ('BGauss', _num(s.bsdf.sigma, issues, path + '.bsdf.sigma'))
    if t == 'ImageSurface':
        if post != pre or s.is_stop or co or bs or s.is_reflective:
            raise Unrepresentable(path + ': edited ImageSurface')
        return ('SImage', g, pre, ap)
    if t != 'Surface':
        raise Unrepresentable(f'{path}: surface class {t}')
    return ('SStandard', g, pre, post, bool(s.is_stop), ap, co, bs, bool(s.is_reflective))


def extract(o):
    """(state, issues, cat): the typed codec state read from the attributes (never through to_dict)"""
    issues = []
    cat = {}
    ap = None
    if o.aperture is not None:
        ap = ('SysAp', o.aperture.ap_type, _num(o.aperture.value, issues, 'aperture.value'),
              bool(o.aperture.object_space_telecentric))
    surfs = [x_surface(s, issues, f'surfaces[{i}]', cat) for i, s in enumerate(o.surface_group.surfaces)]
    fields = [('Field', f.field_type, _num(f.x, issues, 'field.x'), _num(f.y, issues, 'field.y'),
               _num(f.vx, issues, 'field.vx'), _num(f.vy, issues, 'field.vy')) for f in o.fields.fields]
    waves = [('WL', _num(w._value, issues, 'wavelength'), bool(w.is_primary), w._unit) for w in o.wavelengths.wavelengths]
    if o.polarization == 'ignore':
        pol = ('PIgnore',)
    elif type(o.polarization).__name__ == 'PolarizationState':
        p = o.polarization
        pol = ('PState', bool(p.is_polarized), _onum(p.Ex, issues, 'pol'), _onum(p.Ey, issues, 'pol'),
               _onum(p.phase_x, issues, 'pol'), _onum(p.phase_y, issues, 'pol'))
    else:
        raise Unrepresentable('polarization ' + repr(o.polarization))
    pks = [('Pickup', _int(p.source_surface_idx, issues, 'pickup'), p.attr_type, _int(p.target_surface_idx, issues, 'pickup'),
            _num(p.scale, issues, 'pickup.scale'), _num(p.offset, issues, 'pickup.offset')) for p in o.pickups.pickups]
    sols = [('MRHSolve', _int(s.surface_idx, issues, 'solve'), _num(s.height, issues, 'solve.height'))
            for s in o.solves.solves]
    st = ('Lens', ap, o.field_type, surfs, fields, bool(o.fields.telecentric), waves, pol, pks, sols,
          bool(o.obj_space_telecentric))
    return st, issues, cat


def canon(x):
    """hashable / comparable form with bitwise float identity"""
    if isinstance(x, float):
        return 'f:' + ('nan' if x != x else x.hex())
    if isinstance(x, (list, tuple)):
        return tuple(canon(y) for y in x)
    return x


# --------------------------------------------------------------------------------------------------
# Coq rendering
# --------------------------------------------------------------------------------------------------
def cstr(s):
    return '"' + ''.join(ch if 32 <= ord(ch) < 127 else '?' for ch in s).replace('"', '""') + '"%string'


def cfl(x):
    return vlib.fhex(x)


def copt(f, v):
    return 'None' if v is None else f'(Some {f(v)})'


def clist(f, l):
    return '[' + '; '.join(f(x) for x in l) + ']'


def cbool(b):
    return 'true' if b else 'false'


def cz(n):
    return f'({int(n)})%Z'


def c_state(x):
    t = x[0]
    if t == 'CS':
        return '(CS ' + ' '.join(cfl(v) for v in x[1:7]) + ' ' + copt(c_state, x[7]) + ')'
    if t == 'GPlane':
        return f'(GPlane {c_state(x[1])} {copt(cfl, x[2])})'
    if t == 'GStd':
        return f'(GStd {c_state(x[1])} {cfl(x[2])} {cfl(x[3])})'
    if t == 'GEven':
        return f'(GEven {c_state(x[1])} {cfl(x[2])} {cfl(x[3])} {cfl(x[4])} {cz(x[5])} {clist(cfl, x[6])})'
    if t in ('GPoly', 'GCheb'):
        s = f'({t} {c_state(x[1])} {cfl(x[2])} {cfl(x[3])} {cfl(x[4])} {cz(x[5])} {clist(lambda r: clist(cfl, r), x[6])}'
        if t == 'GCheb':
            s += f' {cfl(x[7])} {cfl(x[8])}'
        return s + ')'
    if t == 'MIdeal':
        return f'(MIdeal {cfl(x[1])} {cfl(x[2])})'
    if t == 'MMirror':
        return '(MMirror (A:=float))'
    if t == 'MAbbe':
        return f'(MAbbe {cfl(x[1])} {cfl(x[2])})'
    if t == 'MCatalog':
        return f'(MCatalog {cstr(x[1])} {copt(cstr, x[2])} {cbool(x[3])} {copt(cfl, x[4])} {copt(cfl, x[5])})'
    if t == 'MFile':
        return f'(MFile (A:=float) {cstr(x[1])})'
    if t == 'CSimple':
        return f'(CSimple {cfl(x[1])} {cfl(x[2])})'
    if t == 'CFresnel':
        return f'(CFresnel {c_state(x[1])} {c_state(x[2])})'
    if t == 'BLambert':
        return '(BLambert (A:=float))'
    if t == 'BGauss':
        return f'(BGauss {cfl(x[1])})'
    if t == 'PRadial':
        return f'(PRadial {cfl(x[1])} {cfl(x[2])})'
    if t == 'SObject':
        return f'(SObject {c_state(x[1])} {c_state(x[2])})'
    if t == 'SStandard':
        return (f'(SStandard {c_state(x[1])} {c_state(x[2])} {c_state(x[3])} {cbool(x[4])} {copt(c_state, x[5])} '
                f'{copt(c_state, x[6])} {copt(c_state, x[7])} {cbool(x[8])})')
    if t == 'SImage':
        return f'(SImage {c_state(x[1])} {c_state(x[2])} {copt(c_state, x[3])})'
    if t == 'Field':
        return f'(Field {copt(cstr, x[1])} {cfl(x[2])} {cfl(x[3])} {cfl(x[4])} {cfl(x[5])})'
    if t == 'WL':
        return f'(WL {cfl(x[1])} {cbool(x[2])} {cstr(x[3])})'
    if t == 'SysAp':
        return f'(SysAp {cstr(x[1])} {cfl(x[2])} {cbool(x[3])})'
    if t == 'Pickup':
        return f'(Pickup {cz(x[1])} {cstr(x[2])} {cz(x[3])} {cfl(x[4])} {cfl(x[5])})'
    if t == 'MRHSolve':
        return f'(MRHSolve {cz(x[1])} {cfl(x[2])})'
    if t == 'PIgnore':
        return '(PIgnore (A:=float))'
    if t == 'PState':
        return f'(PState {cbool(x[1])} ' + ' '.join(copt(cfl, v) for v in x[2:6]) + ')'
    if t == 'Lens':
        return (f'(mkLens {copt(c_state, x[1])} {copt(cstr, x[2])} {clist(c_state, x[3])} {clist(c_state, x[4])} '
                f'{cbool(x[5])} {clist(c_state, x[6])} {c_state(x[7])} {clist(c_state, x[8])} {clist(c_state, x[9])} '
                f'{cbool(x[10])})')
    raise ValueError(t)


def c_json(v, key=None):
    """the REAL dictionary as a Coq [fJ] literal (live objects become JLive)"""
    tn = type(v).__name__
    if isinstance(v, dict):
        return 'JDict [' + '; '.join(f'({cstr(str(k))}, {c_json(x, k)})' for k, x in v.items()) + ']'
    if isinstance(v, (list, tuple)):
        return 'JList [' + '; '.join(c_json(x, key) for x in v) + ']'
    if isinstance(v, str):
        return f'JStr {cstr(v)}'
    if v is None:
        return 'JNull'
    if isinstance(v, (bool, np.bool_)):
        return f'JBool {cbool(v)}'
    if isinstance(v, (int, np.integer)) and key in INTKEYS:
        return f'JInt {cz(v)}'
    if isinstance(v, (int, float, np.integer, np.floating)):
        return f'JNum {cfl(float(v))}'
    if isinstance(v, np.ndarray):
        if v.size == 1 and key not in ('coefficients',):
            return f'JNum {cfl(float(v.ravel()[0]))}'
        return c_json(v.tolist(), key)
    if tn in ('IdealMaterial', 'Mirror', 'AbbeMaterial', 'Material', 'MaterialFile'):
        return f'JLive (LMat {c_state(x_material(v, [], "live", {}))})'
    if tn == 'PolarizationState':
        return ('JLive (LPol ' + c_state(('PState', bool(v.is_polarized), v.Ex, v.Ey, v.phase_x, v.phase_y)) + ')')
    raise Unrepresentable(f'dictionary value of type {tn}')


def c_cat(cat):
    """catalogue file function as observed on the implementation"""
    body = '""%string'
    for (name, ref, rob), fn in cat.items():
        r = 'match r with None => true | Some _ => false end' if ref is None else \
            f'match r with Some s => String.eqb s {cstr(ref)} | None => false end'
        body = f'if String.eqb n {cstr(name)} && ({r}) && Bool.eqb b {cbool(rob)} then {cstr(fn)} else {body}'
    return f'(fun (n : string) (r : option string) (b : bool) => {body})'


def c_impl(flags):
    return ('(mkImpl ' + ' '.join(cbool(flags[k]) for k in ('fresnel_nested', 'pol_codec', 'image_from_dict',
                                                              'aperture_none_ok', 'pickups_applied_on_load', 'plane_conic')) + ')')


# --------------------------------------------------------------------------------------------------
# the property, stated on the implementation
# --------------------------------------------------------------------------------------------------
RAYS = [(0.0, 0.0, 0.0, 0.0), (0.0, 1.0, 0.0, 0.7), (0.0, 0.7, 0.3, -0.5), (0.3, -0.4, -0.6, 0.2), (0.0, 1.0, 0.0, 1.0)]


def behaviour(o):
    """everything the property says must be preserved: per-surface ray data for a fixed ray set at every
    wavelength, and the paraxial quantities.  Values as hex strings (bitwise)."""
    out = {}
    sg = o.surface_group
    if any(s.bsdf is not None for s in sg.surfaces):
        out['rays'] = 'skipped: scatter model draws random numbers'
    else:
        rays = []
        for w in o.wavelengths.get_wavelengths():
            for (Hx, Hy, Px, Py) in RAYS:
                try:
                    o.trace_generic(np.array([Hx]), np.array([Hy]), np.array([Px]), np.array([Py]), w)
                    rec = [[float(np.ravel(getattr(s, a))[0]) if np.size(getattr(s, a)) else None
                            for a in ('x', 'y', 'z', 'L', 'M', 'N', 'intensity', 'opd')] for s in sg.surfaces]
                    rays.append(canon(rec))
                except Exception as e:   # noqa
                    rays.append('raised ' + type(e).__name__)
        out['rays'] = tuple(rays)
    par = []
    for name in ('f1', 'f2', 'F1', 'F2', 'P1', 'P2', 'N1', 'N2', 'EPD', 'EPL', 'XPD', 'XPL', 'FNO', 'magnification', 'invariant'):
        try:
            par.append((name, canon(float(np.ravel(getattr(o.paraxial, name)())[0]))))
        except Exception as e:   # noqa
            par.append((name, 'raised ' + type(e).__name__))
    for name in ('marginal_ray', 'chief_ray'):
        try:
            y, u = getattr(o.paraxial, name)()
            par.append((name, canon([float(v) for v in np.ravel(y)] + [float(v) for v in np.ravel(u)])))
        except Exception as e:   # noqa
            par.append((name, 'raised ' + type(e).__name__))
    out['paraxial'] = tuple(par)
    return out


def json_offenders(d, path=''):
    """paths of the values json.dump cannot write"""
    bad = []
    if isinstance(d, dict):
        for k, v in d.items():
            bad += json_offenders(v, f'{path}.{k}' if path else str(k))
    elif isinstance(d, (list, tuple)):
        for i, v in enumerate(d):
            bad += json_offenders(v, f'{path}[{i}]')
    elif not (d is None or isinstance(d, (str, int, float, bool))):
        bad.append([path, type(d).__name__])
    return bad


def first_diff(a, b, path='state'):
    if type(a) != type(b) or (isinstance(a, tuple) and len(a) != len(b)):
        return path
    if isinstance(a, tuple):
        for i, (x, y) in enumerate(zip(a, b)):
            d = first_diff(x, y, f'{path}/{a[0] if a and isinstance(a[0], str) and not a[0].startswith("f:") else ""}{i}')
            if d:
                return d
        return None
    return None if a == b else path


def oracle(o, origin=None):
    """returns a list of violations of C19 on this lens ([] = the property holds here).
    origin: which edit first made a vertex position an array (diagnosis only)."""
    from optiland.optic import Optic
    v = []
    try:
        st0, issues0, _ = extract(o)
    except Unrepresentable as e:
        return [{'stage': 'state', 'site': 'unrepresentable-state', 'detail': str(e)}]
    try:
        d = o.to_dict()
    except Exception as e:   # noqa
        return [{'stage': 'to_dict', 'site': 'to_dict-raises', 'detail': f'{type(e).__name__}: {e}'[:200]}]
    beh0 = None
    text = None
    snapshot = copy.deepcopy(d)
    try:
        text = json.dumps(d)
    except Exception as e:   # noqa
        off = json_offenders(d)
        site = 'json-unsafe'
        types = {t for _, t in off}
        if off and all(p.endswith('.cs.z') and t == 'ndarray' for p, t in off):
            site = 'ndarray-z:' + (origin or 'unknown')
        elif off and all('.coating.material_p' in p for p, t in off):
            site = 'fresnel-coating-json'
        elif off and all(p == 'wavelengths.polarization' for p, t in off):
            site = 'polarization-state-json'
        elif len(types) > 1:
            # several independent causes: report each
            for p, t in off:
                s1 = ('ndarray-z:' + (origin or 'unknown')) if (p.endswith('.cs.z') and t == 'ndarray') else \
                    'fresnel-coating-json' if '.coating.material_p' in p else \
                    'polarization-state-json' if p == 'wavelengths.polarization' else 'json-unsafe'
                if not any(x['site'] == s1 for x in v):
                    v.append({'stage': 'json.dumps', 'site': s1, 'detail': f'{p}: {t}', 'offenders': off[:3]})
            site = None
        if site:
            v.append({'stage': 'json.dumps', 'site': site, 'detail': f'{type(e).__name__}: {e}'[:160], 'offenders': off[:4]})
    # reload: through the file format when it could be written, and always through the dictionary itself
    fpath = None
    if text is not None:
        # the FILE path goes through the implementation's own writer and reader (fileio.optiland_handler); what
        # the writer put into the file must be the dictionary, value for value
        from optiland.fileio.optiland_handler import save_optiland_file, load_optiland_file
        fpath = _tmpfile()
        try:
            save_optiland_file(o, fpath)
            with open(fpath) as fh:
                written = json.load(fh)
            if canon_dict(written) != canon_dict(json.loads(text)):
                v.append({'stage': 'file-content', 'site': 'file-content-differs',
                          'detail': first_diff(canon_dict(json.loads(text)), canon_dict(written), 'dict')})
        except Exception as e:   # noqa
            v.append({'stage': 'save_optiland_file', 'site': 'save-raises', 'detail': f'{type(e).__name__}: {e}'[:160]})
            fpath = None
        v.extend(sub_object_files(o))
    for how in ('file', 'dict'):
        if how == 'file' and fpath is None:
            continue
        src = None if how == 'file' else d
        try:
            o2 = load_optiland_file(fpath) if how == 'file' else Optic.from_dict(src)
            if how == 'dict':
                # from_dict must not modify its argument, and a second load of the same dictionary gives the same lens
                if canon_dict(d) != canon_dict(snapshot):
                    v.append({'stage': 'argument(dict)', 'site': 'from_dict-modifies-argument',
                              'detail': first_diff(canon_dict(snapshot), canon_dict(d), 'dict')})
                o2b = Optic.from_dict(src)
                if canon(extract(o2b)[0]) != canon(extract(o2)[0]):
                    v.append({'stage': 'second-load(dict)', 'site': 'second-load-differs',
                              'detail': first_diff(canon(extract(o2)[0]), canon(extract(o2b)[0]))})
        except Exception as e:   # noqa
            site = 'from_dict-raises'
            if any(s.get('type') == 'ImageSurface' for s in d['surface_group']['surfaces']) and isinstance(e, TypeError):
                site = 'image-surface-reload'
            elif d.get('aperture') is None and isinstance(e, TypeError):
                site = 'no-aperture-reload'
            if not any(x['site'] == site for x in v):
                v.append({'stage': f'from_dict({how})', 'site': site, 'detail': f'{type(e).__name__}: {e}'[:160]})
            continue
        try:
            st2, issues2, _ = extract(o2)
        except Unrepresentable as e:
            v.append({'stage': f'reloaded-state({how})', 'site': 'unrepresentable-state', 'detail': str(e)})
            continue
        if canon(st2) != canon(st0):
            site = 'state-differs'
            if canon(drop_plane_conic(st0)) == canon(st2):
                site = 'plane-conic-dropped'
            elif len(o.pickups) > 0:
                # is the difference exactly "the pickups were applied once more"?
                oa = copy.deepcopy(o)
                try:
                    oa.pickups.apply()
                    if canon(extract(oa)[0]) == canon(st2):
                        site = 'pickup-reapplied-on-load'
                except Exception:   # noqa
                    pass
            if not any(x['site'] == site for x in v):
                v.append({'stage': f'state({how})', 'site': site, 'detail': first_diff(canon(st0), canon(st2))})
            continue
        # dictionary fix-point
        try:
            d2 = o2.to_dict()
            same = (canon_dict(json.loads(json.dumps(d2))) == canon_dict(json.loads(text))) if how == 'file' else (canon(extract(Optic.from_dict(d2))[0]) == canon(st0))
            if not same:
                v.append({'stage': f'fixpoint({how})', 'site': 'dict-not-fixpoint', 'detail': ''})
        except Exception as e:   # noqa
            if how == 'file':
                v.append({'stage': f'fixpoint({how})', 'site': 'dict-not-fixpoint', 'detail': f'{type(e).__name__}: {e}'[:120]})
        # behaviour
        if beh0 is None:
            beh0 = behaviour(o)
        beh2 = behaviour(o2)
        if beh2 != beh0:
            which = [k for k in beh0 if beh0[k] != beh2[k]]
            v.append({'stage': f'behaviour({how})', 'site': 'behaviour-differs', 'detail': ','.join(which)})
            continue
        # the same edits applied to the original and to the reloaded lens give the same lens (no state is lost
        # that a later edit would read).  add_surface is left out: the factory's pending thickness is not saved.
        try:
            oc = copy.deepcopy(o)
        except Exception:   # noqa
            oc = None
        if oc is not None:
            ra, rb = post_edits(oc), post_edits(o2)
            if ra != rb:
                v.append({'stage': f'post-reload-edits({how})', 'site': 'post-reload-edit-differs',
                          'detail': first_diff(ra, rb)})
        # independence: changing the reloaded lens (after the edits above) and the dictionary it came from
        # must leave the original lens as it was
        if how == 'dict':
            scribble(o2, d)
            try:
                st1 = extract(o)[0]
                d1 = o.to_dict()
                if canon(st1) != canon(st0) or canon_dict(d1) != canon_dict(snapshot):
                    det = first_diff(canon(st0), canon(st1)) or first_diff(canon_dict(snapshot), canon_dict(d1), 'dict')
                    site = 'evenasphere-coeff-aliasing' if det and 'GEven' in det else 'aliasing'
                    v.append({'stage': 'independence(dict)', 'site': site, 'detail': det})
                elif behaviour(o) != beh0:
                    v.append({'stage': 'independence(dict)', 'site': 'aliasing', 'detail': 'behaviour of the original changed'})
            except Exception as e:   # noqa
                v.append({'stage': 'independence(dict)', 'site': 'aliasing', 'detail': f'{type(e).__name__}: {e}'[:120]})
    return v


_TMP_N = [0]


def _tmpfile():
    import os
    d = os.path.join(vlib.BUILD, 'tmp')
    os.makedirs(d, exist_ok=True)
    _TMP_N[0] += 1
    return os.path.join(d, f'c19_{os.getpid()}_{_TMP_N[0] % 4}.json')


def sub_object_files(o):
    """save_obj_to_json / load_obj_from_json on the parts of the lens the handler documents (geometries, materials,
    coatings, aperture, field and wavelength groups): the reloaded part has the same dictionary"""
    from optiland.fileio.optiland_handler import save_obj_to_json, load_obj_from_json
    from optiland.geometries import BaseGeometry
    from optiland.materials import BaseMaterial
    from optiland.coatings import BaseCoating
    from optiland.aperture import Aperture
    from optiland.fields import FieldGroup
    from optiland.wavelength import WavelengthGroup
    v = []
    parts = []
    for i, s in enumerate(o.surface_group.surfaces):
        parts.append((f'surfaces[{i}].geometry', BaseGeometry, s.geometry))
        parts.append((f'surfaces[{i}].material_post', BaseMaterial, s.material_post))
        if s.coating is not None:
            parts.append((f'surfaces[{i}].coating', BaseCoating, s.coating))
    if o.aperture is not None:
        parts.append(('aperture', Aperture, o.aperture))
    parts += [('fields', FieldGroup, o.fields), ('wavelengths', WavelengthGroup, o.wavelengths)]
    path = _tmpfile()
    for name, base, obj in parts:
        try:
            want = canon_dict(json.loads(json.dumps(obj.to_dict())))
            save_obj_to_json(obj, path)
            got = canon_dict(json.loads(json.dumps(load_obj_from_json(base, path).to_dict())))
            if got != want:
                v.append({'stage': 'save_obj_to_json', 'site': 'part-file-roundtrip-differs',
                          'detail': name + ': ' + str(first_diff(want, got, 'dict'))})
                break
        except Exception as e:   # noqa
            v.append({'stage': 'save_obj_to_json', 'site': 'part-file-roundtrip-raises',
                      'detail': f'{name}: {type(e).__name__}: {e}'[:160]})
            break
    return v


def canon_dict(d):
    """comparable form of a to_dict result (live objects by class name and attributes)"""
    if isinstance(d, dict):
        return ('dict',) + tuple((str(k), canon_dict(v)) for k, v in d.items())
    if isinstance(d, (list, tuple)):
        return ('list',) + tuple(canon_dict(x) for x in d)
    if isinstance(d, np.ndarray):
        return ('ndarray',) + tuple(canon_dict(x) for x in d.tolist())
    if isinstance(d, (bool, np.bool_)):
        return bool(d)
    if isinstance(d, (float, np.floating)):
        return canon(float(d))
    if isinstance(d, (int, np.integer)):
        return int(d)
    if d is None or isinstance(d, str):
        return d
    return ('obj', type(d).__name__, canon_dict({k: x for k, x in vars(d).items() if isinstance(x, (int, float, str, bool, type(None)))}))


def drop_plane_conic(x):
    if isinstance(x, tuple):
        if x and x[0] == 'GPlane':
            return ('GPlane', x[1], None)
        return tuple(drop_plane_conic(y) for y in x)
    if isinstance(x, list):
        return [drop_plane_conic(y) for y in x]
    return x


def post_edits(o):
    """a fixed edit history applied after loading; returns the comparable state after each step"""
    out = []
    n = len(o.surface_group.surfaces)
    ops = []
    for k in range(1, n - 1):
        g = o.surface_group.surfaces[k].geometry
        if type(g).__name__ == 'Plane':
            ops.append(('set_radius', 77.0, k))
    ops = ops[:3]
    if n >= 4:
        ops.append(('set_thickness', 3.25, 1))
    ops += [('scale', 1.5), ('update',)]
    for op in ops:
        try:
            apply_op(o, list(op))
            out.append(canon(extract(o)[0]))
        except Exception as e:   # noqa
            out.append('raised ' + type(e).__name__)
    return tuple(out)


def scribble(o2, d):
    """overwrite, in place, every mutable container of the reloaded lens and of the dictionary"""
    for s in o2.surface_group.surfaces:
        c = getattr(s.geometry, 'c', None)
        if isinstance(c, list):
            for i in range(len(c)):
                c[i] = c[i] + 1.0
            c.append(123.0)
        elif isinstance(c, np.ndarray):
            c += 1.0
        for m in (s.material_pre, s.material_post):
            if type(m).__name__ == 'IdealMaterial':
                m.index = m.index + 0.25
        s.geometry.cs.x = s.geometry.cs.x + 1.0
        if s.aperture is not None:
            s.aperture.r_max = s.aperture.r_max * 2
    for f in o2.fields.fields:
        f.y = f.y + 1.0
    for w in o2.wavelengths.wavelengths:
        w.is_primary = not w.is_primary
    for p in o2.pickups.pickups:
        p.scale = p.scale + 1.0

    def walk(x):
        if isinstance(x, dict):
            for k in list(x):
                if isinstance(x[k], (dict, list, np.ndarray)):
                    walk(x[k])
                elif isinstance(x[k], float):
                    x[k] = x[k] + 1.0
                elif isinstance(x[k], str):
                    x[k] = x[k] + '?'
            x['scribble'] = 1
        elif isinstance(x, list):
            for i in range(len(x)):
                if isinstance(x[i], (dict, list, np.ndarray)):
                    walk(x[i])
                elif isinstance(x[i], float):
                    x[i] = x[i] + 1.0
            x.append(0.5)
        elif isinstance(x, np.ndarray):
            x += 1.0
    walk(d)


def z_is_array(o):
    return any(isinstance(s.geometry.cs.z, np.ndarray) for s in o.surface_group.surfaces)


def array_origin(rec):
    """name of the first edit of the recipe after which a vertex position is an ndarray"""
    origin = [None]

    def step(o, j, op):
        if origin[0] is None and z_is_array(o):
            if op is None:
                origin[0] = 'construction'
            elif op[0] in ('solve',):
                origin[0] = 'solve'
            elif op[0] in ('set_thickness', 'scale') or (op[0] == 'pickup' and op[2] == 'thickness') \
                    or (op[0] == 'optimise' and op[1] == 'thickness'):
                origin[0] = 'set_thickness'
            elif op[0] == 'update':
                origin[0] = 'set_thickness' if any(p.attr_type == 'thickness' for p in o.pickups.pickups) else 'solve'
            else:
                origin[0] = op[0]
    o = build_recipe(rec, on_step=step)
    return o, origin[0]

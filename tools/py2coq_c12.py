"""py2coq extension for the geometric-analysis code (property C12): NumPy 1-D arrays as Coq lists.

Used through `kclass=AnKernel` in tools/kernels_C12.py.  On top of the base translator:

  kind 'list' values are 1-D float arrays; `a + b`, `a - b`, `a * b`, `a / b`, `a ** k` (literal k),
  `-a`, np.sqrt/np.tan/... are ELEMENTWISE on them (lmap / lmap2 of coq/Num/OpsC12.v), with scalar
  broadcasting; np.mean / np.max / np.flip / np.reshape / np.concatenate-free reductions are the
  list functions mean_ / max_list / rev / identity.

  spec['expr_inputs']  {source text of an expression: (input name, kind)} -- the value of that
                       expression is an INPUT of the kernel (used for reads of the trace records such
                       as `self.optic.surface_group.y[-1, :]`, whose producer is the ray trace)
  spec['free_inputs']  {local name: kind} -- a local whose defining statement is skipped
  spec['skip_assign']  [source text of an assignment target] -- the statement is dropped (arrays that
                       only feed the ignored trace call)
  spec['static_tests'] {source text of a test: 'true'|'false'} -- branch fixed at translation time
  spec['list2_names']  [names] -- `name = []` starts a list of arrays
  `d = {}` followed by `d['key'] = v`: entries are the dotted names d.K__key (base translator)
  `s not in ('a', 'b')` / `s in (...)` on strings; `arr > c` (kind 'boollist'), `np.any(mask)`, `arr[mask]` (lmask)

Everything else falls through to the base class and fails closed there.
"""
import ast

from py2coq import Kernel, Unsupported, V, app, paren, NP_UNARY


class AnKernel(Kernel):
    # ---------------- helpers ----------------
    def src(self, node):
        return ast.unparse(node)

    def static_of(self, node):
        return self.spec.get('static_tests', {}).get(self.src(node))

    def has_exit(self, stmts):
        """like the base, but statically dead branches do not count"""
        def walk(ss):
            for s in ss:
                if isinstance(s, (ast.Return, ast.Raise)):
                    return True
                if isinstance(s, ast.If):
                    st = self.static_of(s.test)
                    if st == 'true':
                        if walk(s.body):
                            return True
                        continue
                    if st == 'false':
                        if walk(s.orelse):
                            return True
                        continue
                    if walk(s.body) or walk(s.orelse):
                        return True
                    continue
                for fld in ('body', 'orelse', 'finalbody'):
                    sub = getattr(s, fld, None)
                    if isinstance(sub, list) and sub and isinstance(sub[0], ast.stmt) and walk(sub):
                        return True
        return bool(walk(list(stmts)))

    def lmap(self, fun_body, lst):
        """fun_body: text with the hole `@`"""
        return V('list', f'(lmap (fun v_ => {fun_body.replace("@", "v_")}) {paren(lst)})')

    # ---------------- expressions ----------------
    def expr(self, node, env):
        key = self.src(node) if isinstance(node, (ast.Subscript, ast.Call, ast.Attribute, ast.Name, ast.Compare)) else None
        if key is not None:
            ei = self.spec.get('expr_inputs', {})
            if key in ei:
                name, kind = ei[key]
                self.types.setdefault(name, kind)
                return self.get_input(name)
            if isinstance(node, ast.Compare):
                st = self.static_of(node)
                if st in ('true', 'false'):
                    return V('bool', st)
        if isinstance(node, ast.Dict) and not node.keys:
            return V('obj', path='__dict__')
        if isinstance(node, ast.UnaryOp) and isinstance(node.op, ast.USub):
            v = self.expr(node.operand, env)
            if v.kind == 'list':
                return self.lmap('neg @', v.coq)
            if v.kind == 'int':
                return V('int', f'(- {paren(v.coq)})%Z')
            return V('num', app('neg', self.to_num(v)))
        return super().expr(node, env)

    def coq_type(self, kind):
        if kind == 'boollist':
            return 'list bool'
        return super().coq_type(kind)

    def compare(self, node, env):
        if len(node.ops) == 1 and isinstance(node.ops[0], (ast.In, ast.NotIn)) and isinstance(node.comparators[0], ast.Tuple) \
                and all(isinstance(e, ast.Constant) and isinstance(e.value, str) for e in node.comparators[0].elts):
            a = self.expr(node.left, env)
            if a.kind != 'str':
                raise Unsupported('membership test on ' + a.kind)
            alts = [app('String.eqb', a.coq, '"' + e.value + '"%string') for e in node.comparators[0].elts]
            out = alts[0]
            for x in alts[1:]:
                out = app('orb', out, x)
            return V('bool', out if isinstance(node.ops[0], ast.In) else app('negb', out))
        if len(node.ops) == 1 and isinstance(node.ops[0], (ast.Gt, ast.Lt, ast.GtE, ast.LtE)):
            a = self.expr(node.left, env)
            b = self.expr(node.comparators[0], env)
            if a.kind == 'list' and b.kind in ('num', 'int'):
                f = {ast.Lt: 'ltb_', ast.LtE: 'leb_', ast.Gt: 'gtb_', ast.GtE: 'geb_'}[type(node.ops[0])]
                c = self.bind('c', V('num', self.to_num(b)))
                return V('boollist', f'(map (fun v_ => {f} v_ {paren(c.coq)}) {paren(a.coq)})')
            if a.kind == 'list' or b.kind == 'list':
                raise Unsupported('array comparison ' + self.src(node))
            env2 = dict(env)
            env2['__a__'] = a
            env2['__b__'] = b
            n2 = ast.Compare(left=ast.Name(id='__a__', ctx=ast.Load()), ops=node.ops,
                             comparators=[ast.Name(id='__b__', ctx=ast.Load())])
            ast.copy_location(n2, node)
            ast.fix_missing_locations(n2)
            return super().compare(n2, env2)
        return super().compare(node, env)

    def subscript(self, node, env):
        if not isinstance(node.slice, (ast.Tuple, ast.Slice)):
            base = self.expr(node.value, env)
            if base.kind == 'list':
                idx = self.expr(node.slice, env)
                if idx.kind == 'boollist':
                    return V('list', app('lmask', base.coq, idx.coq))
        return super().subscript(node, env)

    def load_name(self, dotted, env):
        if dotted not in env and dotted in self.spec.get('free_inputs', {}):
            self.types.setdefault(dotted, self.spec['free_inputs'][dotted])
            return self.get_input(dotted)
        return super().load_name(dotted, env)

    def binop(self, node, env):
        a = self.expr(node.left, env)
        b = self.expr(node.right, env)
        if a.kind != 'list' and b.kind != 'list':
            return self._scalar_binop(node, a, b, env)
        op = node.op
        if isinstance(op, ast.Pow):
            if a.kind == 'list' and isinstance(node.right, ast.Constant) and isinstance(node.right.value, int) \
                    and 1 <= node.right.value <= 8:
                body = 'v_'
                for _ in range(node.right.value - 1):
                    body = f'mul v_ {paren(body)}'
                return V('list', f'(lmap (fun v_ => {body}) {paren(a.coq)})')
            raise Unsupported('array power ' + self.src(node))
        f = {ast.Add: 'add', ast.Sub: 'sub', ast.Mult: 'mul', ast.Div: 'div'}.get(type(op))
        if f is None:
            raise Unsupported('array operator ' + type(op).__name__)
        if a.kind == 'list' and b.kind == 'list':
            return V('list', f'(lmap2 {f} {paren(a.coq)} {paren(b.coq)})')
        if a.kind == 'list':
            c = self.bind('c', V('num', self.to_num(b)))
            return V('list', f'(lmap (fun v_ => {f} v_ {paren(c.coq)}) {paren(a.coq)})')
        c = self.bind('c', V('num', self.to_num(a)))
        return V('list', f'(lmap (fun v_ => {f} {paren(c.coq)} v_) {paren(b.coq)})')

    def _scalar_binop(self, node, a, b, env):
        # re-dispatch to the base implementation on the already evaluated operands (bound to
        # placeholder names), so nothing is evaluated twice
        env2 = dict(env)
        env2['__a__'] = a
        env2['__b__'] = b
        right = node.right if isinstance(node.right, ast.Constant) else ast.Name(id='__b__', ctx=ast.Load())
        n2 = ast.BinOp(left=ast.Name(id='__a__', ctx=ast.Load()), op=node.op, right=right)
        ast.copy_location(n2, node)
        ast.fix_missing_locations(n2)
        return super().binop(n2, env2)

    def call(self, node, env):
        fn = node.func
        dotted = self.dotted_of(fn)
        args = node.args
        if dotted and dotted.split('.')[0] in ('np', 'numpy'):
            name = dotted.split('.', 1)[1]
            if name == 'any' and len(args) == 1:
                v = self.expr(args[0], env)
                if v.kind == 'boollist':
                    return V('bool', app('existsb', '(fun b_ => b_)', v.coq))
                return v
            if name in ('mean', 'max', 'flip', 'reshape') and args:
                v = self.expr(args[0], env)
                if v.kind == 'list':
                    if len(node.keywords) > 0:
                        raise Unsupported('keyword arguments of np.' + name)
                    if name == 'mean' and len(args) == 1:
                        return V('num', app('mean_', v.coq))
                    if name == 'max' and len(args) == 1:
                        return V('num', app('max_list', v.coq))
                    if name == 'flip' and len(args) == 1:
                        return V('list', app('rev', v.coq))     # flip of every axis = reversal of the row-major data
                    if name == 'reshape' and len(args) == 2:
                        return v                                 # row-major data unchanged
                raise Unsupported(f'np.{name} of {v.kind}')
            if name in NP_UNARY and len(args) == 1:
                v = self.expr(args[0], env)
                if v.kind == 'list':
                    return self.lmap(f'{NP_UNARY[name]} @', v.coq)
                return V('num', app(NP_UNARY[name], self.to_num(v)))
        return super().call(node, env)

    # ---------------- statements ----------------
    def block(self, stmts, env, k):
        if stmts:
            s, rest = stmts[0], stmts[1:]
            if isinstance(s, ast.Assign) and len(s.targets) == 1:
                tgt = self.src(s.targets[0])
                if tgt in self.spec.get('skip_assign', ()):
                    return self.block(rest, env, k)
                if isinstance(s.value, ast.List) and not s.value.elts and tgt in self.spec.get('list2_names', ()):
                    env = dict(env)
                    env[tgt] = V('list2', '[]')
                    return self.block(rest, env, k)
                if isinstance(s.value, ast.Dict) and not s.value.keys and isinstance(s.targets[0], ast.Name):
                    env = dict(env)
                    env[tgt] = V('obj', path=tgt)
                    return self.block(rest, env, k)
            if isinstance(s, ast.If):
                st = self.static_of(s.test)
                if st == 'true':
                    return self.block(list(s.body) + rest, env, k)
                if st == 'false':
                    return self.block(list(s.orelse) + rest, env, k)
            if isinstance(s, ast.Expr) and isinstance(s.value, ast.Call) and isinstance(s.value.func, ast.Attribute) \
                    and s.value.func.attr == 'append' and len(s.value.args) == 1:
                tgt = self.dotted_of(s.value.func.value)
                if tgt is not None and tgt in env and env[tgt].kind == 'list2':
                    item = self.expr(s.value.args[0], env)
                    if item.kind != 'list':
                        raise Unsupported('append of ' + item.kind + ' to a list of arrays')
                    env = dict(env)
                    env[tgt] = self.bind(tgt, V('list2', f'({env[tgt].coq} ++ [{item.coq}])'))
                    return self.flush() + self.block(rest, env, k)
        return super().block(stmts, env, k)

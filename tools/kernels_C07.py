"""Kernels of property C07 (symmetries / re-descriptions / scaling) translated by py2coq.
Names are prefixed c07_ so they cannot collide with other properties' kernels of the same source."""
CS = 'optiland/coordinate_system.py'
PA = 'optiland/physical_apertures.py'
RG = 'optiland/rays/ray_generator.py'
SG = 'optiland/surfaces/surface_group.py'
SS = 'optiland/surfaces/standard_surface.py'
ID = 'optiland/materials/ideal.py'

_RR = {'rays.translate': 'translate', 'rays.rotate_x': 'rotate_x', 'rays.rotate_y': 'rotate_y',
       'rays.rotate_z': 'rotate_z'}
_OUT6 = ['rays.x', 'rays.y', 'rays.z', 'rays.L', 'rays.M', 'rays.N']
_OC = {'self.optic.paraxial.EPL': 'num', 'self.optic.paraxial.EPD': 'num', 'self._get_starting_z_offset': 'num'}
_TY = {'self.optic.object_surface': 'obj', 'self.optic.surface_group.positions': 'list',
       'self.optic.field_type': 'str', 'self.optic.obj_space_telecentric': 'bool'}

from py2coq_c03 import C03Kernel      # list primitives (np.min over a slice, builtin min/max) of tools/py2coq_c03.py
_L = dict(kclass=C03Kernel, requires=['Num.OpsC03'])
_TYL = {'self.optic.object_surface': 'obj', 'self.optic.object_surface.is_infinite': 'bool',
        'self.optic.field_type': 'str', 'self.optic.obj_space_telecentric': 'bool',
        'self.optic.surface_group.positions': 'list'}
_PX = {'self.optic.paraxial.EPL': 'num', 'self.optic.paraxial.EPD': 'num'}

MODULE_DEPS = {'C07K': ['RealRays'], 'C07L': ['Standard']}
MODULES = {
    'C07K': [
        # CoordinateSystem.localize / globalize acting on REAL rays (translation + the three conditional rotations)
        dict(name='c07_cs_localize', file=CS, cls='CoordinateSystem', func='localize', types={'rays': 'obj'},
             static={'self.reference_cs': 'none'}, calls=_RR, outputs=_OUT6),
        dict(name='c07_cs_globalize', file=CS, cls='CoordinateSystem', func='globalize', types={'rays': 'obj'},
             static={'self.reference_cs': 'none'}, calls=_RR, outputs=_OUT6),
        dict(name='c07_ap_scale', file=PA, cls='RadialAperture', func='scale', outputs=['self.r_max', 'self.r_min']),
        dict(name='c07_ideal_n', file=ID, cls='IdealMaterial', func='n'),
        dict(name='c07_ideal_k', file=ID, cls='IdealMaterial', func='k'),
        dict(name='c07_get_thickness', file=SG, cls='SurfaceGroup', func='get_thickness',
             types={'self.positions': 'list', 'surface_number': 'int'}),
        dict(name='c07_is_rotsym', file=SS, cls='Surface', func='is_rotationally_symmetric',
             types={'self.geometry.is_symmetric': 'bool', 'self.geometry.cs': 'obj'}),
        # RayGenerator._get_ray_origins for an object at infinity (the finite-object branches define x,y,z in an
        # if/elif without else, which the translator refuses: they are hand-modelled in Model/M_C07.v)
        dict(name='c07_origins_inf', file=RG, cls='RayGenerator', func='_get_ray_origins', types=_TY,
             static={'obj.is_infinite': 'true'}, opaque_calls=_OC),
    ],
    # the launch point of a ray: where the path length starts counting (infinite and finite objects, both field types)
    'C07L': [
        dict(name='c07_z_offset', file=RG, cls='RayGenerator', func='_get_starting_z_offset', types=dict(_TYL),
             opaque_calls=dict(_PX), **_L),
        dict(name='c07_origins', file=RG, cls='RayGenerator', func='_get_ray_origins', types=dict(_TYL),
             opaque_calls=dict(_PX),
             calls={'self._get_starting_z_offset': 'c07_z_offset', 'obj.geometry.sag': 'std_sag'}, **_L),
    ],
}

"""Seidel / colour term kernels (C08)."""
AB = 'optiland/aberrations.py'
L = 'list'
T = {'k': 'int', 'self._ya': L, 'self._i': L, 'self._ip': L, 'self._n': L, 'self._ua': L, 'self._dn': L,
     'self._B': L, 'self._Bp': L, 'self._C': L, 'self._ub': L, 'self._yb': L}
MODULES = {
    'Seidel': [
        dict(name='TAchC_term', file=AB, cls='Aberrations', func='_TAchC_term', types=T),
        dict(name='TchC_term', file=AB, cls='Aberrations', func='_TchC_term', types=T),
        dict(name='TSC_term', file=AB, cls='Aberrations', func='_TSC_term', types=T),
        dict(name='CC_term', file=AB, cls='Aberrations', func='_CC_term', types=T),
        dict(name='TAC_term', file=AB, cls='Aberrations', func='_TAC_term', types=T),
        dict(name='TPC_term', file=AB, cls='Aberrations', func='_TPC_term', types=T),
        dict(name='DC_term', file=AB, cls='Aberrations', func='_DC_term', types=T),
    ],
}

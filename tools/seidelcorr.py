"""Correspondence of Model/Seidel.v with optiland.aberrations.Aberrations, plus a Welford-form oracle."""
import math
import numpy as np
import vlib

FAMS = ['TSC', 'SC', 'CC', 'TCC', 'TAC', 'AC', 'TPC', 'PC', 'DC', 'TAchC', 'LchC', 'TchC', 'S']


def gather(optic):
    """inputs the aberration code reads (from the implementation's own paraxial data) and its outputs"""
    P = optic.paraxial
    n = [float(v) for v in np.ravel(optic.n())]
    dn = [float(v) for v in np.ravel(optic.n(0.4861) - optic.n(0.6563))]
    radii = [float(v) for v in np.ravel(optic.surface_group.radii)]
    ya, ua = P.marginal_ray()
    yb, ub = P.chief_ray()
    ya, ua, yb, ub = [[float(v) for v in np.ravel(a)] for a in (ya, ua, yb, ub)]
    inv = float(np.ravel(P.invariant())[0])
    N = len(n)
    rows = []
    for k in range(1, N - 1):
        c = 0.0 if math.isinf(radii[k]) else 1.0 / radii[k]
        rows.append(dict(n0=n[k - 1], n1=n[k], c=c, ya=ya[k], ua0=ua[k - 1], ua1=ua[k], yb=yb[k], ub0=ub[k - 1],
                         ub1=ub[k], dn0=dn[k - 1], dn1=dn[k],
                         refl=bool(optic.surface_group.surfaces[k].is_reflective)))
    g = dict(inv=inv, nl=n[-1], ul=ua[-1])
    out = {}
    try:
        res = optic.aberrations.third_order()
        out['third_order'] = [[float(v) for v in np.ravel(a)] for a in res]
    except Exception as e:   # noqa
        out['third_order'] = ('err', type(e).__name__, str(e)[:80])
    acc = {}
    for nm in FAMS[:-1]:
        try:
            acc[nm] = [float(v) for v in np.ravel(getattr(optic.aberrations, nm)())]
        except Exception as e:  # noqa
            acc[nm] = ('err', type(e).__name__)
    try:
        acc['S'] = [float(v) for v in np.ravel(optic.aberrations.seidels())]
    except Exception as e:  # noqa
        acc['S'] = ('err', type(e).__name__)
    out['accessors'] = acc
    return rows, g, out


def coq_rows(rows, g):
    fh = vlib.fhex
    rs = '[' + ';\n '.join('(mkRow (O:=FOps) ' + ' '.join(fh(r[k]) for k in ('n0', 'n1', 'c', 'ya', 'ua0', 'ua1', 'yb', 'ub0', 'ub1', 'dn0', 'dn1')) + ')' for r in rows) + ']'
    gs = f'(mkGlob (O:=FOps) {fh(g["inv"])} {fh(g["nl"])} {fh(g["ul"])})'
    return rs, gs


def run(cases, tol=1e-9, tag='seidel', chunk=40):
    bodies, index = [], []
    for start in range(0, len(cases), chunk):
        lines, keys = [], []
        for ci in range(start, min(start + chunk, len(cases))):
            c = cases[ci]
            if c['out']['third_order'][0] == 'err' if isinstance(c['out']['third_order'], tuple) else False:
                continue
            rs, gs = coq_rows(c['rows'], c['g'])
            exp = '[' + '; '.join(vlib.flist(f) for f in c['out']['third_order']) + ']'
            lines.append(f'(let m := third_order {gs} {rs} in let e := {exp} in '
                         f'Nat.eqb (List.length m) (List.length e) && forallb (fun p => close_list {vlib.fhex(tol)} (fst p) (snd p)) (combine m e))')
            keys.append(ci)
        if not lines:
            continue
        bodies.append('Eval vm_compute in (report [\n' + ';\n'.join(lines) + '\n]).\n')
        index.append(keys)
    res = vlib.run_cases(tag, 'From OV Require Import Model.Seidel.', bodies)
    bad = []
    n = 0
    for keys, r in zip(index, res):
        if r[0] == 'error':
            raise RuntimeError(r[1])
        n += r[0]
        bad += [keys[i] for i in r[2]]
    return bad, n


def welford(rows, g):
    """classical contributions from the same paraxial data; returns dict family -> list (library sign convention)"""
    H = g['inv']
    out = {k: [] for k in ('TSC', 'CC', 'TAC', 'TPC', 'DC', 'TAchC', 'TchC')}
    # mirrors as index sign reversal: every index after a mirror changes sign
    sgn = 1.0
    eff = []
    for r in rows:
        s0 = sgn
        if r.get('refl'):
            sgn = -sgn
        eff.append((s0 * r['n0'], sgn * (r['n0'] if r.get('refl') else r['n1']), s0 * r['dn0'],
                    sgn * (r['dn0'] if r.get('refl') else r['dn1'])))
    K = sgn * g['nl'] * g['ul']
    for r, (n, n1, d0, d1) in zip(rows, eff):
        r = dict(r, dn0=d0, dn1=d1)
        c, y = r['c'], r['ya']
        A = n * (r['ua0'] + y * c)
        Ab = n * (r['ub0'] + r['yb'] * c)
        Dun = r['ua1'] / n1 - r['ua0'] / n
        SI, SII, SIII = -A * A * y * Dun, -A * Ab * y * Dun, -Ab * Ab * y * Dun
        SIV = -H * H * c * (1 / n1 - 1 / n)
        SV = Ab / A * (SIII + SIV) if A != 0 else float('nan')
        Ddn = r['dn1'] / n1 - r['dn0'] / n
        out['TSC'].append(SI / (2 * K)); out['CC'].append(SII / (2 * K)); out['TAC'].append(SIII / (2 * K))
        out['TPC'].append(SIV / (2 * K)); out['DC'].append(SV / (2 * K))
        out['TAchC'].append(A * y * Ddn / K); out['TchC'].append(Ab * y * Ddn / K)
    return out


def check_seidel(rows, g, out, rtol=1e-7):
    bad = []
    to = out['third_order']
    if isinstance(to, tuple):
        return [{'kind': 'seidel', 'quantity': 'third_order raised', 'detail': to[1:]}]
    fam = dict(zip(FAMS, to))
    ul = g['ul']
    K = g['nl'] * g['ul']

    def close(a, b, scale=1.0):
        # scale: magnitude of the family the two numbers belong to (a lens with a small aperture and field has
        # contributions far below 1, and an absolute floor of rtol would accept a term that is silently zeroed)
        if not (math.isfinite(a) and math.isfinite(b)):
            return (math.isnan(a) and math.isnan(b)) or a == b
        return abs(a - b) <= rtol * (scale + abs(a) + abs(b))

    def mag(*lists):
        v = [abs(x) for l in lists for x in l if isinstance(x, float) and math.isfinite(x)]
        return max(v) if v else 0.0
    refr = all(r.get('refl') or abs(r['n1'] * r['ua1'] - (r['n0'] * r['ua0'] - r['ya'] * r['c'] * (r['n1'] - r['n0']))) < 1e-9 for r in rows)
    first_mirror = next((k + 1 for k, r in enumerate(rows) if r.get('refl')), None)
    if g['inv'] != 0 and K != 0 and refr:
        w = welford(rows, g)
        for nm in ('TSC', 'CC', 'TAC', 'TPC', 'DC', 'TAchC', 'TchC'):
            sc = mag(fam[nm], w[nm])
            for k, (a, b) in enumerate(zip(fam[nm], w[nm])):
                if math.isfinite(b) and not close(a, b, sc):
                    bad.append({'kind': 'seidel', 'quantity': nm, 'surface': k + 1, 'implementation': a, 'classical': b,
                                'first_mirror': first_mirror})
                    break
    # family identities
    if ul == 0:
        return bad
    for a, b, nm in ((fam['TCC'], [3 * x for x in fam['CC']], 'TCC=3CC'),
                     (fam['SC'], [-x / ul for x in fam['TSC']], 'SC=-TSC/u'),
                     (fam['AC'], [-x / ul for x in fam['TAC']], 'AC=-TAC/u'),
                     (fam['PC'], [-x / ul for x in fam['TPC']], 'PC=-TPC/u'),
                     (fam['LchC'], [-x / ul for x in fam['TAchC']], 'LchC=-TAchC/u')):
        if len(a) != len(b) or not all(close(x, y, mag(a, b)) for x, y in zip(a, b)):
            bad.append({'kind': 'seidel-identity', 'quantity': nm})
    for j, nm in enumerate(('TSC', 'CC', 'TAC', 'TPC', 'DC')):
        s = -sum(fam[nm]) * K * 2
        if not close(fam['S'][j], s, mag(fam[nm]) * abs(K) * 2):
            bad.append({'kind': 'seidel-identity', 'quantity': f'S[{j}] = -2 n u sum({nm})'})
    for nm in FAMS:
        a = out['accessors'].get(nm)
        if isinstance(a, tuple) or a is None:
            bad.append({'kind': 'seidel-identity', 'quantity': f'accessor {nm} raised'})
        elif len(a) != len(fam[nm]) or not all(close(x, y, 0.0) for x, y in zip(a, fam[nm])):
            bad.append({'kind': 'seidel-identity', 'quantity': f'accessor {nm} != third_order component'})
    return bad

"""Implementation-side harness of property C12: runs optiland's geometric analyses, traces the same rays
independently (optic.trace_generic on fresh arrays at the documented field / wavelength / pupil samples) and
recomputes every reported quantity directly from its definition (NumPy, written independently of the
analysis code).  Used by tools/props/C12.py for the system-level correspondence and for search()."""
import math
import warnings

import numpy as np

warnings.simplefilter('ignore')
np.seterr(all='ignore')

RECS = ('x', 'y', 'z', 'L', 'M', 'N', 'intensity')


# ----------------------------------------------------------------------------------------------
# independent tracing helpers
# ----------------------------------------------------------------------------------------------
def tg(o, Hx, Hy, Px, Py, w):
    """independent real-ray trace on fresh arrays; returns {name: 2-D array [surface, ray]}"""
    n = max(np.size(Hx), np.size(Hy), np.size(Px), np.size(Py))
    f = lambda v: np.array(np.broadcast_to(np.asarray(v, dtype=float), (n,)), dtype=float)   # noqa: E731
    o.trace_generic(f(Hx), f(Hy), f(Px), f(Py), w)
    sg = o.surface_group
    return {k: np.array(getattr(sg, k), dtype=float) for k in RECS}


DISTRIBUTIONS = ('hexapolar', 'uniform', 'cross', 'line_x', 'line_y', 'positive_line_x', 'positive_line_y', 'ring', 'random')


def documented_points(distribution, num):
    """the DOCUMENTED normalised pupil samples of every named distribution, written down here independently of
    optiland.distribution (which is part of what is under test).  'random' has no reproducible samples: None."""
    if distribution == 'line_x':
        return np.linspace(-1, 1, num), np.zeros(num)
    if distribution == 'line_y':
        return np.zeros(num), np.linspace(-1, 1, num)
    if distribution == 'positive_line_x':
        return np.linspace(0, 1, num), np.zeros(num)
    if distribution == 'positive_line_y':
        return np.zeros(num), np.linspace(0, 1, num)
    if distribution == 'uniform':                      # num x num grid on [-1, 1]^2 masked to the unit disk, row-major
        g = np.linspace(-1, 1, num)
        x, y = np.meshgrid(g, g)
        keep = x ** 2 + y ** 2 <= 1
        return x[keep], y[keep]
    if distribution == 'hexapolar':                    # centre + rings i = 1..num of 6 i equally spaced points, radius i / num
        xs, ys = [0.0], [0.0]
        for i in range(1, num + 1):
            for k in range(6 * i):
                th = 2 * math.pi * k / (6 * i)
                xs.append(i / num * math.cos(th))
                ys.append(i / num * math.sin(th))
        return np.array(xs), np.array(ys)
    if distribution == 'cross':                        # num samples along y, then num samples along x
        g = np.linspace(-1, 1, num)
        return np.concatenate([np.zeros(num), g]), np.concatenate([g, np.zeros(num)])
    if distribution == 'ring':                         # num DISTINCT equally spaced points on the edge of the pupil
        th = 2 * math.pi * np.arange(num) / num
        return np.cos(th), np.sin(th)
    if distribution == 'random':
        return None
    raise ValueError(distribution)


def check_distributions(nums=(1, 2, 5, 8)):
    """every named distribution of optiland.distribution against its documented samples (and the contract of 'random':
    the requested number of distinct points inside the unit pupil, scaled by the vignetting factors)"""
    from optiland.distribution import create_distribution
    out = []
    for name in DISTRIBUTIONS:
        for n in nums:
            for vx, vy in ((0.0, 0.0), (0.2, 0.1)):
                try:
                    d = create_distribution(name)
                    d.generate_points(n, vx, vy)
                    x, y = np.array(d.x, dtype=float), np.array(d.y, dtype=float)
                except Exception as e:   # noqa
                    out.append(v('Distribution', 'raises', f'{name} n={n}: {type(e).__name__}: {e}', distribution=name))
                    continue
                doc = documented_points(name, n)
                if doc is None:
                    r = np.sqrt((x / (1 - vx)) ** 2 + (y / (1 - vy)) ** 2)
                    pts = set(zip(x.tolist(), y.tolist()))
                    if len(x) != n or len(y) != n or np.any(r > 1 + 1e-12) or len(pts) != n:
                        out.append(v('Distribution', 'samples', f'{name} n={n}: not {n} distinct points of the unit pupil', distribution=name))
                elif not (close(x, doc[0] * (1 - vx), atol=1e-12) and close(y, doc[1] * (1 - vy), atol=1e-12)):
                    out.append(v('Distribution', 'samples', f'{name} n={n} v=({vx},{vy}): generated points are not the documented samples '
                                 f'(got {len(x)} points, {len(set(zip(np.round(x, 12).tolist(), np.round(y, 12).tolist())))} distinct)', distribution=name))
    return out


def pupil_points(o, Hx, Hy, num, distribution):
    """pupil samples exactly as documented for Optic.trace: the DOCUMENTED points of the named distribution (written
    down in documented_points, not taken from the library), scaled by (1 - v) of the field's vignetting factors"""
    vx, vy = o.fields.get_vig_factor(Hx, Hy)
    doc = documented_points(distribution, num)
    if doc is None:
        raise ValueError('the samples of a random distribution cannot be reproduced')
    # Optic.trace scales the points by (1 - v) once more and then hands them to the same ray generator as
    # trace_generic, which applies its own (1 - v): passing points * (1 - v) to trace_generic reproduces trace
    return np.array(doc[0], dtype=float) * (1 - vx), np.array(doc[1], dtype=float) * (1 - vy)


def spot_of(o, field, w, num, distribution):
    Px, Py = pupil_points(o, field[0], field[1], num, distribution)
    r = tg(o, field[0], field[1], Px, Py, w)
    return r['x'][-1], r['y'][-1], r['intensity'][-1]


def paraxial_y(o, Hy, Py, w, surface=-1):
    o.paraxial.trace(Hy, Py, w)
    return np.array(o.surface_group.y[surface, :], dtype=float)


def close(a, b, rtol=1e-9, atol=1e-11):
    a = np.asarray(a, dtype=float)
    b = np.asarray(b, dtype=float)
    if a.shape != b.shape:
        return False
    both_nan = np.isnan(a) & np.isnan(b)
    ok = (np.abs(a - b) <= atol + rtol * np.maximum(np.abs(a), np.abs(b))) | (a == b)
    return bool(np.all(ok | both_nan))


def fl(v):
    return [float(t) for t in np.ravel(np.asarray(v, dtype=float))]


def ee_view_curves(ee):
    """run the real EncircledEnergy.view() with matplotlib replaced by a recorder; returns ([(r, ee) per field], axis_lim)"""
    import matplotlib.pyplot as plt
    ax = FakeAx()
    old = plt.subplots, plt.show
    plt.subplots = lambda *a, **k: (FakeAx(), ax)
    plt.show = lambda *a, **k: None
    try:
        ee.view()
    finally:
        plt.subplots, plt.show = old
    curves = [(np.asarray(a[0], dtype=float), np.asarray(a[1], dtype=float)) for a, k in ax.lines]
    axis_lim = float(curves[0][0][-1]) / 1.2 if curves and len(curves[0][0]) else float('nan')
    return curves, axis_lim


class FakeAx:
    """records ax.plot calls (used to read the curves that only exist inside view())"""
    def __init__(self):
        self.lines = []

    def plot(self, *a, **k):
        self.lines.append((a, k))

    def __getattr__(self, name):
        return lambda *a, **k: None


# ----------------------------------------------------------------------------------------------
# the property, analysis by analysis.  Each function returns a list of violation dicts.
# ----------------------------------------------------------------------------------------------
def v(analysis, kind, detail, **kw):
    d = {'analysis': analysis, 'kind': kind, 'detail': detail}
    d.update(kw)
    return d


def own_wavelengths(o):
    return [float(w) for w in o.wavelengths.get_wavelengths()]


def ref_index(o, wavelengths):
    """index of the reference (primary) wavelength in an explicit list, or None if it is not listed"""
    wp = float(o.primary_wavelength)
    for i, w in enumerate(wavelengths):
        if float(w) == wp:
            return i
    return None


def check_spot(o, fields, wavelengths, num_rings, distribution, cls_name='SpotDiagram', ctx=None):
    """SpotDiagram (and RmsSpotSizeVsField, which is a SpotDiagram over generated fields)"""
    from optiland.analysis import SpotDiagram
    ctx = dict(ctx or {})
    ctx.update({'fields': [list(map(float, f)) for f in fields], 'wavelengths': [float(w) for w in wavelengths],
                'num_rings': num_rings, 'distribution': distribution,
                'explicit_wavelengths': [float(w) for w in wavelengths] != own_wavelengths(o)})
    out = []
    try:
        sd = SpotDiagram(o, fields=fields, wavelengths=wavelengths, num_rings=num_rings, distribution=distribution)
    except Exception as e:   # noqa
        return [v(cls_name, 'raises', f'constructor: {type(e).__name__}: {e}', **ctx)]
    spots = [[spot_of(o, f, w, num_rings, distribution) for w in wavelengths] for f in fields]
    for i in range(len(fields)):
        for j in range(len(wavelengths)):
            for c, nm in enumerate(('x', 'y', 'intensity')):
                if not close(sd.data[i][j][c], spots[i][j][c]):
                    out.append(v(cls_name, 'data', f'field {i} wavelength {j} {nm} differs from the independent trace', **ctx))
    if out:
        return out
    # reference wavelength for the centroid: the lens's primary wavelength when it is listed; the first listed one otherwise
    ri = ref_index(o, wavelengths)
    cands = [ri] if ri is not None else [0]
    try:
        cen = sd.centroid()
        geo = sd.geometric_spot_radius()
        rms = sd.rms_spot_radius()
    except Exception as e:   # noqa
        return [v(cls_name, 'reference-raises', f'centroid/radius: {type(e).__name__}: {e}', primary_listed=ri is not None, **ctx)]
    try:
        cen2 = sd.centroid()
    except Exception as e:   # noqa
        return [v(cls_name, 'raises', f'second centroid(): {type(e).__name__}: {e}', **ctx)]
    for i in range(len(fields)):
        if not close([cen2[i][0], cen2[i][1]], [cen[i][0], cen[i][1]]):
            out.append(v(cls_name, 'query-not-repeatable', f'field {i}: centroid() after the radius queries is {fl(cen2[i])}, before {fl(cen[i])}', **ctx))
        for j in range(len(wavelengths)):
            for c, nm in enumerate(('x', 'y', 'intensity')):
                if not close(sd.data[i][j][c], spots[i][j][c]):
                    out.append(v(cls_name, 'data-altered', f'field {i} wavelength {j}: .data {nm} is no longer the traced intersections after centroid / radius queries', **ctx))
    if out:
        return out
    for i in range(len(fields)):
        ok_ref = None
        nonfin = int(sum(np.sum(~(np.isfinite(sp[0]) & np.isfinite(sp[1]))) for sp in spots[i]))
        for k in cands:
            fin = np.isfinite(spots[i][k][0]) & np.isfinite(spots[i][k][1])
            if not np.any(fin):
                continue
            cx, cy = np.mean(spots[i][k][0][fin]), np.mean(spots[i][k][1][fin])
            if close([cen[i][0], cen[i][1]], [cx, cy]):
                ok_ref = (cx, cy)
                break
        if ok_ref is None:
            if all(not np.any(np.isfinite(spots[i][k][0]) & np.isfinite(spots[i][k][1])) for k in cands):
                continue                                   # no ray of the reference wavelength reaches the image: nothing to report
            refs_have_nan = any(np.any(~(np.isfinite(spots[i][k][0]) & np.isfinite(spots[i][k][1]))) for k in cands)
            if refs_have_nan and np.isnan(cen[i][0]):
                out.append(v(cls_name, 'nan-poisoned', f'field {i}: centroid is NaN although rays reach the image '
                             f'({nonfin} rays of this field failed)', nonfinite_rays=nonfin, **ctx))
            else:
                out.append(v(cls_name, 'reference-wrong', f'field {i}: centroid is not the centroid of the primary-wavelength spot',
                             primary_listed=ri is not None, **ctx))
            continue
        cx, cy = ok_ref
        for j in range(len(wavelengths)):
            fin = np.isfinite(spots[i][j][0]) & np.isfinite(spots[i][j][1])
            if not np.any(fin):
                continue
            r2 = (spots[i][j][0][fin] - cx) ** 2 + (spots[i][j][1][fin] - cy) ** 2
            bad_kind = 'nan-poisoned' if not np.all(fin) else None
            if not close(geo[i][j], np.sqrt(np.max(r2))):
                out.append(v(cls_name, bad_kind or 'geometric-radius', f'field {i} wavelength {j}: {float(geo[i][j])!r} vs {float(np.sqrt(np.max(r2)))!r}',
                             nonfinite_rays=int(np.sum(~fin)), **ctx))
            if not close(rms[i][j], np.sqrt(np.sum(r2) / len(r2))):
                out.append(v(cls_name, bad_kind or 'rms-radius', f'field {i} wavelength {j}: {float(rms[i][j])!r} vs {float(np.sqrt(np.sum(r2) / len(r2)))!r}',
                             nonfinite_rays=int(np.sum(~fin)), **ctx))
    return out


def check_rms_vs_field(o, num_fields, wavelengths, num_rings, distribution):
    from optiland.analysis import RmsSpotSizeVsField
    wl = own_wavelengths(o) if wavelengths == 'all' else [float(w) for w in wavelengths]
    ctx = {'num_fields': num_fields, 'wavelengths': wl, 'explicit_wavelengths': wl != own_wavelengths(o)}
    fields = [(0.0, float(h)) for h in np.linspace(0, 1, num_fields)]
    try:
        a = RmsSpotSizeVsField(o, num_fields=num_fields, wavelengths=wavelengths, num_rings=num_rings, distribution=distribution)
    except Exception as e:   # noqa
        ri = ref_index(o, wl)
        return [v('RmsSpotSizeVsField', 'reference-raises', f'{type(e).__name__}: {e}', primary_listed=ri is not None, **ctx)]
    out = []
    ri = ref_index(o, wl)
    cands = [ri] if ri is not None else [0]
    for i, f in enumerate(fields):
        spots = [spot_of(o, f, w, num_rings, distribution) for w in wl]
        fins = [np.isfinite(sp[0]) & np.isfinite(sp[1]) for sp in spots]
        if not all(np.any(fn) for fn in fins):
            continue                                       # a wavelength without any ray at the image: nothing to compare
        good = False
        for k in cands:
            cx, cy = np.mean(spots[k][0][fins[k]]), np.mean(spots[k][1][fins[k]])
            exp = [np.sqrt(np.mean((sp[0][fn] - cx) ** 2 + (sp[1][fn] - cy) ** 2)) for sp, fn in zip(spots, fins)]
            if close(a._spot_size[i], exp):
                good = True
                break
        if not good:
            nonfin = int(sum(np.sum(~fn) for fn in fins))
            kind = 'nan-poisoned' if nonfin else ('reference-wrong' if ri is None or wl != own_wavelengths(o) else 'rms-radius')
            out.append(v('RmsSpotSizeVsField', kind, f'field sample {i} (Hy={f[1]}): reported {fl(a._spot_size[i])}',
                         primary_listed=ri is not None, nonfinite_rays=nonfin, **ctx))
        if not close(a._field[i], f):
            out.append(v('RmsSpotSizeVsField', 'field-samples', f'sample {i}', **ctx))
        for j in range(len(wl)):
            if not (close(a.data[i][j][0], spots[j][0]) and close(a.data[i][j][1], spots[j][1])):
                out.append(v('RmsSpotSizeVsField', 'data-altered', f'field sample {i} wavelength {j}: .data is not the traced intersections', **ctx))
                break
    return out


def check_encircled(o, fields, wavelength, num_rays, distribution, num_points):
    """EncircledEnergy: the curve (only computed inside view -> read through _plot_field) is the energy of the
    transmitted rays within r of the centroid; non-decreasing; reaches the total transmitted energy"""
    from optiland.analysis import EncircledEnergy
    from copy import deepcopy
    ctx = {'fields': [list(map(float, f)) for f in fields], 'wavelength': wavelength if isinstance(wavelength, str) else float(wavelength),
           'num_rays': num_rays, 'distribution': distribution, 'num_points': num_points}
    w = float(o.primary_wavelength) if isinstance(wavelength, str) else float(wavelength)
    try:
        ee = EncircledEnergy(o, fields=fields, wavelength=wavelength, num_rays=num_rays, distribution=distribution,
                             num_points=num_points)
        curves, axis_lim = ee_view_curves(ee)
    except Exception as e:   # noqa
        return [v('EncircledEnergy', 'raises', f'{type(e).__name__}: {e}', **ctx)], None
    out = []
    raw = []
    for k, f in enumerate(fields):
        if distribution == 'random':
            x, y, en = [np.array(t, dtype=float) for t in ee.data[k][0]]   # the samples are not reproducible: use the stored ones
        else:
            x, y, en = spot_of(o, f, w, num_rays, distribution)
            if not (close(ee.data[k][0][0], x) and close(ee.data[k][0][1], y) and close(ee.data[k][0][2], en)):
                out.append(v('EncircledEnergy', 'data', f'field {k} differs from the independent trace', **ctx))
                continue
        if len(curves) != len(fields):
            out.append(v('EncircledEnergy', 'curve-count', f'{len(curves)} curves for {len(fields)} fields', **ctx))
            break
        r_step, e_step = curves[k]
        r_step, e_step = np.asarray(r_step, dtype=float), np.asarray(e_step, dtype=float)
        fin = np.isfinite(x) & np.isfinite(y)
        cx, cy = np.mean(x[fin]), np.mean(y[fin])
        rad = np.sqrt((x - cx) ** 2 + (y - cy) ** 2)
        total = float(np.sum(en[fin]))
        if not np.any(fin) or total == 0:
            continue                                       # no ray reaches the image
        exp = np.array([np.sum(en[fin][rad[fin] <= r]) for r in r_step])
        raw.append({'x': fl(x), 'y': fl(y), 'e': fl(en), 'axis_lim': float(axis_lim), 'r': fl(r_step), 'ee': fl(e_step)})
        if len(r_step) != num_points:
            out.append(v('EncircledEnergy', 'samples', f'field {k}: {len(r_step)} radii for num_points={num_points}', **ctx))
        if not np.all(np.isfinite(r_step)) or not close(e_step, exp, rtol=1e-9, atol=1e-9):
            out.append(v('EncircledEnergy', 'nan-poisoned' if not np.all(fin) else 'curve', f'field {k}: curve is not the energy within r of the centroid '
                         f'(non-finite rays: {int(np.sum(~fin))}; last value {float(e_step[-1])!r}, total transmitted {total!r})',
                         nonfinite_rays=int(np.sum(~fin)), **ctx))
            continue
        if np.any(np.diff(e_step) < -1e-12):
            out.append(v('EncircledEnergy', 'not-monotone', f'field {k}', **ctx))
        if abs(e_step[-1] - total) > 1e-9 * max(1.0, total):
            out.append(v('EncircledEnergy', 'total', f'field {k}: last value {float(e_step[-1])!r} != total transmitted {total!r}', **ctx))
    return out, raw


def check_rayfan(o, fields, wavelengths, num_points):
    from optiland.analysis import RayFan
    wl = [float(w) for w in wavelengths]
    ctx = {'fields': [list(map(float, f)) for f in fields], 'wavelengths': wl, 'num_points': num_points,
           'explicit_wavelengths': wl != own_wavelengths(o)}
    ri = ref_index(o, wl)
    try:
        a = RayFan(o, fields=fields, wavelengths=wavelengths, num_points=num_points)
    except Exception as e:   # noqa
        return [v('RayFan', 'reference-raises', f'{type(e).__name__}: {e}', primary_listed=ri is not None, **ctx)]
    out = []
    n = num_points + 1 if num_points % 2 == 0 else num_points
    P = np.linspace(-1, 1, n)
    if a.num_points != n or not close(a.data['Px'], P) or not close(a.data['Py'], P):
        out.append(v('RayFan', 'samples', f'num_points {a.num_points}', **ctx))
        return out
    wp = float(o.primary_wavelength)
    refs = [wp] if ri is not None else wl[:1]        # the primary wavelength when listed, else the first listed wavelength
    for f in fields:
        vx, vy = o.fields.get_vig_factor(f[0], f[1])
        traces = {}
        for w in wavelengths:
            traces[float(w)] = (tg(o, f[0], f[1], P * (1 - vx), 0.0, w), tg(o, f[0], f[1], 0.0, P * (1 - vy), w))
        good = False
        why = ''
        for wr in refs:
            chief = tg(o, f[0], f[1], 0.0, 0.0, wr)      # the chief ray at the reference wavelength is the origin of the fan
            x0, y0 = chief['x'][-1, 0], chief['y'][-1, 0]
            bad = []
            for w in wavelengths:
                d = a.data[f'{f}'][f'{w}']
                rx, ry = traces[float(w)]
                # the fan is a difference of image coordinates: its absolute accuracy is that of the coordinates themselves
                # (iteratively intersected surfaces converge to 1e-10 per batch, so a ray traced alone and inside a fan differ)
                tol_x = 2e-9 * (1 + np.nanmax(np.abs(np.append(rx['x'][-1], x0))))
                tol_y = 2e-9 * (1 + np.nanmax(np.abs(np.append(ry['y'][-1], y0))))
                if not close(d['x'], rx['x'][-1] - x0, atol=tol_x):
                    bad.append(('fan-x', w))
                if not close(d['y'], ry['y'][-1] - y0, atol=tol_y):
                    bad.append(('fan-y', w))
                if not (close(d['intensity_x'], rx['intensity'][-1]) and close(d['intensity_y'], ry['intensity'][-1])):
                    bad.append(('intensity', w))
            if not bad:
                good = True
                break
            why = bad
        if not good:
            for kind, w in why[:3]:
                out.append(v('RayFan', kind, f'field {f} wavelength {w}: fan is not the image coordinate minus the chief-ray '
                             f'coordinate at the reference wavelength', **ctx))
    return out


def check_pupil_aberration(o, fields, wavelengths, num_points, stop=None):
    from optiland.analysis import PupilAberration
    wl = [float(w) for w in wavelengths]
    ctx = {'fields': [list(map(float, f)) for f in fields], 'wavelengths': wl, 'num_points': num_points}
    try:
        a = PupilAberration(o, fields=fields, wavelengths=wavelengths, num_points=num_points)
    except Exception as e:   # noqa
        return [v('PupilAberration', 'raises', f'{type(e).__name__}: {e}', **ctx)]
    out = []
    n = num_points + 1 if num_points % 2 == 0 else num_points
    P = np.linspace(-1, 1, n)
    if stop is None:
        stop = o.surface_group.stop_index
    wp = float(o.primary_wavelength)
    # paraxial reference: the stop is conjugate to the entrance pupil, so the paraxial height at the stop is P * d with
    # d the paraxial stop radius = slope of the real on-axis ray height at the stop for a vanishing pupil coordinate
    eps = 1e-6
    d = tg(o, 0.0, 0.0, 0.0, eps, wp)['y'][stop, 0] / eps
    par = P * d
    for f in fields:
        for w in wavelengths:
            e = a.data[f'{f}'][f'{w}']
            vx, vy = o.fields.get_vig_factor(f[0], f[1])
            rx = tg(o, f[0], f[1], P * (1 - vx), 0.0, w)
            ry = tg(o, f[0], f[1], 0.0, P * (1 - vy), w)
            ex = (par - rx['x'][stop]) / d * 100
            ex[rx['intensity'][stop] == 0] = np.nan
            ey = (par - ry['y'][stop]) / d * 100
            ey[ry['intensity'][stop] == 0] = np.nan
            all_nan = bool(np.all(np.isnan(e['x'])) and np.all(np.isnan(e['y'])))
            if not close(e['x'], ex, atol=1e-9):
                out.append(v('PupilAberration', 'x', f'field {f} wavelength {w}' + (': all NaN' if all_nan else ''), all_nan=all_nan, **ctx))
            if not close(e['y'], ey, atol=1e-9):
                out.append(v('PupilAberration', 'y', f'field {f} wavelength {w}' + (': all NaN' if all_nan else ''), all_nan=all_nan, **ctx))
    return out


def check_stop(o, spec):
    """the aperture stop of the lens is the surface the PRESCRIPTION declares (the one declared last), it is the only one,
    and the real rays are aimed at its entrance pupil: the chief ray of a small field crosses it at its centre (up to
    third-order pupil aberration)"""
    exp = expected_stop(spec)
    if exp is None:
        return []
    out = []
    flagged = [i for i, sf in enumerate(o.surface_group.surfaces) if sf.is_stop]
    ctx = {'expected_stop': exp, 'flagged': flagged, 'route': spec.get('route', 'direct')}
    if flagged != [exp]:
        out.append(v('PupilAberration', 'stop-bookkeeping', f'surfaces flagged as the stop: {flagged}; the prescription declares surface {exp}', **ctx))
    try:
        si = int(o.surface_group.stop_index)
        if si != exp:
            out.append(v('PupilAberration', 'stop-bookkeeping', f'stop_index = {si}; the prescription declares surface {exp}', **ctx))
    except Exception as e:   # noqa
        out.append(v('PupilAberration', 'stop-bookkeeping', f'stop_index raises {type(e).__name__}: {e}', **ctx))
    wp = float(o.primary_wavelength)
    eps = 1e-6
    d = tg(o, 0.0, 0.0, 0.0, eps, wp)['y'][exp, 0] / eps
    h = 0.02
    yc = tg(o, 0.0, h, 0.0, 0.0, wp)['y'][exp, 0]
    if np.isfinite(d) and d != 0 and np.isfinite(yc) and abs(yc / d * 100) > 2e-3:
        out.append(v('PupilAberration', 'chief-ray-misses-stop-centre', f'field Hy={h}: the chief ray crosses the stop (surface {exp}) at '
                     f'{float(yc / d * 100):.5f} % of the stop radius from its centre', **ctx))
    return out


def expected_stop(spec):
    """index (in the lens, object = 0) of the surface the prescription declares as the stop"""
    ks = [i + 1 for i, sf in enumerate(spec['surfaces']) if sf.get('is_stop')]
    return ks[-1] if ks else None


def field_angles(o):
    return o.field_type == 'angle'


def check_distortion(o, wavelengths, num_points, dtype):
    """distortion = 100 (y_chief - y_ref) / y_ref with y_ref the paraxial image height on the actual image surface
    (f-tan); for f-theta the reference grows with the field angle instead of its tangent"""
    from optiland.analysis import Distortion
    wl = own_wavelengths(o) if wavelengths == 'all' else [float(w) for w in wavelengths]
    ctx = {'wavelengths': wl, 'num_points': num_points, 'distortion_type': dtype, 'field_type': o.field_type,
           'max_field': float(o.fields.max_field)}
    try:
        a = Distortion(o, wavelengths=wavelengths, num_points=num_points, distortion_type=dtype)
    except Exception as e:   # noqa
        return [v('Distortion', 'raises', f'{type(e).__name__}: {e}', **ctx)], None
    out = []
    Hy = np.linspace(1e-10, 1, num_points)
    raw = []
    mf = float(o.fields.max_field)
    if mf == 0:
        return [], None                                   # a lens with only the axial field has no distortion curve
    tiny = 1e-7
    for k, w in enumerate(wl):
        yr = tg(o, 0.0, Hy, 0.0, 0.0, w)['y'][-1]
        y_t = tg(o, 0.0, tiny, 0.0, 0.0, w)['y'][-1, 0]
        if not (np.all(np.isfinite(yr)) and np.isfinite(y_t)) or y_t == 0:
            continue
        # paraxial image height on the actual image surface: the chief-ray height is linear in tan(angle) (object at a
        # field angle) or in the object height in the paraxial limit; the factor comes from a real chief ray at a
        # vanishing field (1e-7 of the full field; the analysis itself uses 1e-10)
        if field_angles(o):
            th = np.radians(mf) * Hy
            if dtype == 'f-tan':
                yref = y_t / math.tan(tiny * math.radians(mf)) * np.tan(th)
            else:
                yref = y_t / (tiny * math.radians(mf)) * th
        else:
            yref = y_t / tiny * Hy
        exp = 100 * (yr - yref) / yref
        raw.append({'yr': fl(yr), 'Hy': fl(Hy), 'data': fl(a.data[k]), 'w': float(w)})
        # the first sample is the (1e-10) reference field itself: 0/0-like, compare from the second sample on
        if not close(np.asarray(a.data[k])[1:], exp[1:], rtol=1e-6, atol=2e-5):
            worst = float(np.nanmax(np.abs(np.asarray(a.data[k])[1:] - exp[1:])))
            out.append(v('Distortion', 'value', f'wavelength {w}: differs from 100 (y - y_ref)/y_ref by up to {worst:.3g} %', **ctx))
    return out, raw


def check_grid_distortion(o, wavelength, num_points, dtype):
    from optiland.analysis import GridDistortion
    w = float(o.primary_wavelength) if isinstance(wavelength, str) else float(wavelength)
    ctx = {'wavelength': w, 'num_points': num_points, 'distortion_type': dtype, 'field_type': o.field_type,
           'max_field': float(o.fields.max_field)}
    try:
        a = GridDistortion(o, wavelength=wavelength, num_points=num_points, distortion_type=dtype)
    except Exception as e:   # noqa
        return [v('GridDistortion', 'raises', f'{type(e).__name__}: {e}', **ctx)], None
    out = []
    m = math.sqrt(2) / 2
    ext = np.linspace(-m, m, num_points)
    Hx, Hy = np.meshgrid(ext, ext)
    r = tg(o, Hx.flatten(), Hy.flatten(), 0.0, 0.0, w)
    xr, yr = r['x'][-1].reshape(Hx.shape), r['y'][-1].reshape(Hx.shape)
    if not (close(a.data['xr'], xr) and close(a.data['yr'], yr)):
        out.append(v('GridDistortion', 'real-grid', 'xr/yr differ from the independent trace', **ctx))
    # reference grid: the paraxial (undistorted) image of the same field grid; the scale along each axis comes from a
    # real ray at a vanishing field along THAT axis (independent of how the analysis pairs x with y)
    tiny = 1e-8
    sx = tg(o, tiny, 0.0, 0.0, 0.0, w)['x'][-1, 0]
    sy = tg(o, 0.0, tiny, 0.0, 0.0, w)['y'][-1, 0]
    mf = float(o.fields.max_field)
    if field_angles(o):
        if dtype == 'f-tan':
            g = lambda H: np.tan(H * np.radians(mf)) / math.tan(tiny * math.radians(mf))    # noqa: E731
        else:
            g = lambda H: H / tiny                                                             # noqa: E731
    else:
        g = lambda H: H / tiny                                                                 # noqa: E731
    xp, yp = sx * g(Hx), sy * g(Hy)
    rp = np.sqrt(xp ** 2 + yp ** 2)
    if mf == 0 or not (np.all(np.isfinite(xr)) and np.all(np.isfinite(yr)) and np.isfinite(sx) and np.isfinite(sy)) \
            or sx == 0 or sy == 0:
        return out, None                                  # nothing to compare (axial-only lens or failed chief rays)
    keep = rp > 1e-9 * np.max(rp)                       # the relative departure is undefined where the reference is the axis point
    dist = 100 * np.sqrt((xp - xr) ** 2 + (yp - yr) ** 2)[keep] / rp[keep]
    exp = float(np.max(dist))
    got = float(a.data['max_distortion'])
    raw = {'y_ref': None, 'xr': fl(xr), 'yr': fl(yr), 'xp': fl(a.data['xp']), 'yp': fl(a.data['yp']), 'max': got}
    if not (abs(got - exp) <= 1e-4 + 1e-4 * abs(exp)):
        out.append(v('GridDistortion', 'max-distortion', f'reported {got!r}, recomputed {exp!r}', centre_sample=bool(num_points % 2), **ctx))
    return out, raw


def check_field_curvature(o, wavelengths, num_points):
    """tangential / sagittal focus offsets = z of the crossing of two parabasal rays about the chief ray, measured from
    the chief ray's point on the image surface (independent 2x2 solve per field sample)"""
    from optiland.analysis import FieldCurvature
    wl = own_wavelengths(o) if wavelengths == 'all' else [float(w) for w in wavelengths]
    ctx = {'wavelengths': wl, 'num_points': num_points}
    try:
        a = FieldCurvature(o, wavelengths=wavelengths, num_points=num_points)
    except Exception as e:   # noqa
        return [v('FieldCurvature', 'raises', f'{type(e).__name__}: {e}', **ctx)], None
    out = []
    raw = []
    H = np.linspace(0, 1, num_points)
    dl = 1e-5
    for k, w in enumerate(wl):
        for plane, (pc, dc) in enumerate((('y', 'M'), ('x', 'L'))):
            got = np.asarray(a.data[k][plane], dtype=float)
            exp = np.zeros(num_points)
            for i, h in enumerate(H):
                vx, vy = o.fields.get_vig_factor(0.0, float(h))
                if plane == 0:
                    r1 = tg(o, 0.0, h, 0.0, -dl, w)
                    r2 = tg(o, 0.0, h, 0.0, dl, w)
                else:
                    r1 = tg(o, 0.0, h, -dl, 0.0, w)
                    r2 = tg(o, 0.0, h, dl, 0.0, w)
                p1, d1 = np.array([r1[pc][-1, 0], r1['z'][-1, 0]]), np.array([r1[dc][-1, 0], r1['N'][-1, 0]])
                p2, d2 = np.array([r2[pc][-1, 0], r2['z'][-1, 0]]), np.array([r2[dc][-1, 0], r2['N'][-1, 0]])
                try:
                    t = np.linalg.solve(np.array([d1, -d2]).T, p2 - p1)
                    exp[i] = (p1 + t[0] * d1)[1] - p1[1]
                except np.linalg.LinAlgError:
                    exp[i] = np.nan
            raw.append({'plane': plane, 'got': fl(got), 'exp': fl(exp)})
            use = np.isfinite(exp) & (np.abs(exp) < 1e4)   # (nearly) parallel pairs have no crossing to speak of
            if not close(got[use], exp[use], rtol=1e-6, atol=1e-7):
                out.append(v('FieldCurvature', 'tangential' if plane == 0 else 'sagittal',
                             f'wavelength {w}: differs from the crossing of the parabasal pair by up to {float(np.nanmax(np.abs(got[use] - exp[use]))):.3g}', **ctx))
    return out, raw


# ----------------------------------------------------------------------------------------------
# Coddington trace along the chief ray (spheres and planes, refracting)
# ----------------------------------------------------------------------------------------------
def coddington(o, surfs, h, w):
    """independent Coddington trace in the frame of the chief ray (distances along the ray, positive downstream; indices
    positive; curvature positive when the centre of curvature lies downstream), so refracting AND reflecting spheres and
    planes are covered whatever the direction of travel.  Returns (z_T, z_S) offsets of the tangential / sagittal foci
    from the chief ray's image-surface point, or None when the lens is outside the method's scope"""
    ch = tg(o, 0.0, h, 0.0, 0.0, w)
    pts = np.array([[ch['x'][k, 0], ch['y'][k, 0], ch['z'][k, 0]] for k in range(ch['x'].shape[0])])
    dirs = np.array([[ch['L'][k, 0], ch['M'][k, 0], ch['N'][k, 0]] for k in range(ch['x'].shape[0])])
    if not np.all(np.isfinite(pts[1:])) or not np.all(np.isfinite(dirs)):
        return None
    obj_inf = o.object_surface.is_infinite
    inv_sp = inv_tp = 0.0
    for k, sf in enumerate(surfs):
        idx = k + 1                   # record index of this surface
        sh = sf['shape']
        if sh[0] not in ('plane', 'std') or (sh[0] == 'std' and sh[2] != 0.0):
            return None
        if sf['rx'] or sf['ry'] or sf['x'] or sf['y']:
            return None
        n1, n2 = abs(sf['n1']), abs(sf['n2'])
        d_in = dirs[idx - 1]          # direction recorded after the previous surface (record 0 holds the launch direction)
        d_out = dirs[idx]
        p = pts[idx]
        if sh[0] == 'plane' or not math.isfinite(sh[1]):
            nrm = np.array([0.0, 0.0, 1.0])
            c_eff = 0.0
        else:
            R = sh[1]
            centre = np.array([0.0, 0.0, sf['z'] + R])
            nrm = (centre - p) / abs(R)           # unit normal pointing at the centre of curvature
            c_eff = 1.0 / abs(R)
        if float(np.dot(d_in, nrm)) < 0:          # orient the normal downstream; the centre is then upstream
            nrm = -nrm
            c_eff = -c_eff
        cosI = float(np.dot(d_in, nrm))
        cosIp = abs(float(np.dot(d_out, nrm)))
        if k == 0:
            if obj_inf:
                inv_s = inv_t = 0.0
            else:
                dist = float(np.linalg.norm(p - pts[0]))
                inv_s = inv_t = -1.0 / dist
        else:
            dist = float(np.dot(p - pts[idx - 1], d_in))          # path along the chief ray from the previous surface
            sp = (1.0 / inv_sp - dist) if inv_sp != 0 else math.inf
            tp = (1.0 / inv_tp - dist) if inv_tp != 0 else math.inf
            inv_s = 0.0 if math.isinf(sp) else (math.inf if sp == 0 else 1.0 / sp)
            inv_t = 0.0 if math.isinf(tp) else (math.inf if tp == 0 else 1.0 / tp)
        if sf['refl']:
            inv_sp = inv_s - 2.0 * c_eff * cosI
            inv_tp = inv_t - 2.0 * c_eff / cosI
        else:
            power = c_eff * (n2 * cosIp - n1 * cosI)
            inv_sp = (power + n1 * inv_s) / n2
            inv_tp = (power + n1 * cosI ** 2 * inv_t) / (n2 * cosIp ** 2)
    # the last surface is the image surface (no power): the foci lie at distances 1/inv_sp, 1/inv_tp DOWNSTREAM along the
    # chief ray from its image-surface point; their z offsets carry the sign of the ray's direction cosine
    N = dirs[-1][2]
    zS = (1.0 / inv_sp) * N if inv_sp != 0 else math.inf
    zT = (1.0 / inv_tp) * N if inv_tp != 0 else math.inf
    return zT, zS


def check_coddington(o, surfs_of, wavelengths, num_points, tol=2e-4):
    """FieldCurvature against Coddington's equations; returns (violations, n_compared)"""
    from optiland.analysis import FieldCurvature
    wl = own_wavelengths(o) if wavelengths == 'all' else [float(w) for w in wavelengths]
    try:
        a = FieldCurvature(o, wavelengths=wavelengths, num_points=num_points)
    except Exception as e:   # noqa
        return [v('FieldCurvature', 'raises', f'{type(e).__name__}: {e}')], 0
    out = []
    n = 0
    H = np.linspace(0, 1, num_points)
    for k, w in enumerate(wl):
        surfs = surfs_of(w)
        for i, h in enumerate(H):
            cd = coddington(o, surfs, float(h), w)
            if cd is None:
                continue
            zT, zS = cd
            gT, gS = float(a.data[k][0][i]), float(a.data[k][1][i])
            if not (math.isfinite(gT) and math.isfinite(gS) and math.isfinite(zT) and math.isfinite(zS)):
                continue
            n += 1
            scale = max(1.0, abs(zT), abs(zS))
            if abs(gT - zT) > tol * scale * max(1.0, abs(zT)) or abs(gS - zS) > tol * scale * max(1.0, abs(zS)):
                out.append(v('FieldCurvature', 'coddington', f'Hy={h:.4f} w={w}: tangential {gT!r} vs Coddington {zT!r}; sagittal {gS!r} vs {zS!r}',
                             wavelengths=wl, num_points=num_points))
    return out, n


# ----------------------------------------------------------------------------------------------
# operands
# ----------------------------------------------------------------------------------------------
def check_operands(o, rng, nrays=4):
    from optiland.optimization.operand.ray import RayOperand
    out = []
    ws = own_wavelengths(o)
    nsurf = o.surface_group.num_surfaces
    for _ in range(nrays):
        Hx, Hy = rng.choice([0.0, rng.uniform(-1, 1)]), rng.uniform(-1, 1)
        rr, th = rng.uniform(0, 1), rng.uniform(0, 6.283)
        Px, Py = rr * math.cos(th), rr * math.sin(th)
        w = rng.choice(ws)
        sn = rng.randrange(1, nsurf)
        try:
            vx, vy = o.fields.get_vig_factor(Hx, Hy)
        except Exception:   # noqa
            continue
        ref = tg(o, Hx, Hy, Px, Py, w)
        for nm, key in (('x_intercept', 'x'), ('y_intercept', 'y'), ('z_intercept', 'z'), ('L', 'L'), ('M', 'M'), ('N', 'N')):
            try:
                got = float(getattr(RayOperand, nm)(o, sn, Hx, Hy, Px, Py, w))
            except Exception as e:   # noqa
                out.append(v('RayOperand.' + nm, 'raises', f'{type(e).__name__}: {e}'))
                continue
            if not close(got, ref[key][sn, 0]):
                out.append(v('RayOperand.' + nm, 'value', f'surface {sn} ray ({Hx},{Hy},{Px},{Py},{w}): {got!r} vs {float(ref[key][sn, 0])!r}'))
    for dist, num in (('hexapolar', 2), ('uniform', 5), ('ring', rng.choice([5, 6]))):
        Hy = rng.uniform(-1, 1)
        w = rng.choice(ws)
        sn = rng.randrange(1, nsurf)
        Px, Py = pupil_points(o, 0.0, Hy, num, dist)
        r = tg(o, 0.0, Hy, Px, Py, w)
        x, y = r['x'][sn], r['y'][sn]
        exp = np.sqrt(np.mean((x - np.mean(x)) ** 2 + (y - np.mean(y)) ** 2))
        got = RayOperand.rms_spot_size(o, sn, 0.0, Hy, num, w, dist)
        if not close(got, exp):
            out.append(v('RayOperand.rms_spot_size', 'value', f'surface {sn} Hy={Hy} w={w} {dist}: {float(got)!r} vs {float(exp)!r}'))
        xs, ys = [], []
        for ww in ws:
            r = tg(o, 0.0, Hy, Px, Py, ww)
            xs.append(r['x'][sn])
            ys.append(r['y'][sn])
        pi = o.wavelengths.primary_index
        mx, my = np.mean(xs[pi]), np.mean(ys[pi])
        exp = np.sqrt(np.mean(np.concatenate([(a - mx) ** 2 + (b - my) ** 2 for a, b in zip(xs, ys)])))
        got = RayOperand.rms_spot_size(o, sn, 0.0, Hy, num, 'all', dist)
        if not close(got, exp):
            out.append(v('RayOperand.rms_spot_size', 'value-all', f'surface {sn} Hy={Hy} {dist}: {float(got)!r} vs {float(exp)!r}'))
    return out


def check_yybar(o):
    """YYbar.view plots marginal height against chief height, surface after surface"""
    import matplotlib.pyplot as plt
    from optiland.analysis.y_ybar import YYbar
    ya, _ = o.paraxial.marginal_ray()
    yb, _ = o.paraxial.chief_ray()
    ya, yb = np.ravel(ya), np.ravel(yb)
    ax = FakeAx()
    old = plt.subplots, plt.show
    plt.subplots = lambda *a, **k: (None, ax)
    plt.show = lambda *a, **k: None
    try:
        YYbar(o).view()
    except Exception as e:   # noqa
        return [v('YYbar', 'raises', f'{type(e).__name__}: {e}')]
    finally:
        plt.subplots, plt.show = old
    segs = [(np.ravel(a[0]), np.ravel(a[1])) for a, k in ax.lines]
    exp = [([yb[k - 1], yb[k]], [ya[k - 1], ya[k]]) for k in range(2, len(ya))]
    if len(segs) != len(exp) or any(not (close(s[0], e[0]) and close(s[1], e[1])) for s, e in zip(segs, exp)):
        return [v('YYbar', 'segments', 'plotted segments are not (chief, marginal) heights of consecutive surfaces')]
    return []


# ----------------------------------------------------------------------------------------------
# lens generation and the whole property on one lens
# ----------------------------------------------------------------------------------------------
FIELD_CLASSES = ('ascending', 'reordered', 'all_negative', 'largest_negative', 'mixed_largest_positive')
LENS_CLASSES = ('refracting', 'mirror1', 'mirror3', 'catadioptric1')


def _field_class(spec, rng, fclass):
    """field lists are SETS of field points: any order, any signs (the normalisation is by the largest magnitude)"""
    import lensgen
    ys = [f[0] for f in spec['fields']]
    mf = max(abs(y) for y in ys)
    if fclass == 'reordered':
        lensgen.reorder_fields(spec, rng)
    elif fclass == 'all_negative':
        spec['fields'] = [[-abs(f[0])] + f[1:] for f in spec['fields']]
    elif fclass == 'largest_negative':          # e.g. (0, 10, -20)
        spec['fields'] = [[0.0, 0.0, 0.0, 0.0], [rng.uniform(0.3, 0.7) * mf, 0.0, 0.0, 0.0], [-mf, 0.0, 0.0, 0.0]]
        if rng.random() < 0.5:
            rng.shuffle(spec['fields'])
    elif fclass == 'mixed_largest_positive':    # e.g. (-10, 0, 20)
        spec['fields'] = [[-rng.uniform(0.3, 0.7) * mf, 0.0, 0.0, 0.0], [0.0, 0.0, 0.0, 0.0], [mf, 0.0, 0.0, 0.0]]
    if fclass != 'ascending':
        for f in spec['fields']:                # the vignetting interpolation is only defined for ascending non-negative fields
            f[2] = f[3] = 0.0
    spec['field_class'] = fclass
    return spec


def mirror_spec(rng, nmirrors, catadioptric=False):
    """all-reflecting (or one lens + mirrors) system with an ODD number of mirrors: the light reaches the image travelling
    towards -z (negative image-side thickness).  The image distance is solved by build() and then defocused."""
    inf = float('inf')
    surfs = [{'type': 'standard', 'radius': inf, 'thickness': rng.uniform(30.0, 70.0), 'is_stop': True, 'material': 'air'}]
    if catadioptric:
        surfs.append({'type': 'standard', 'radius': rng.uniform(150.0, 400.0) * rng.choice([-1, 1]), 'thickness': rng.uniform(3.0, 6.0),
                      'is_stop': False, 'material': ['ideal', rng.uniform(1.45, 1.7), 0.0]})
        surfs.append({'type': 'standard', 'radius': rng.uniform(150.0, 400.0) * rng.choice([-1, 1]), 'thickness': rng.uniform(20.0, 40.0),
                      'is_stop': False, 'material': 'air'})
    sign = 1
    Rp = rng.uniform(150.0, 300.0)
    surfs.append({'type': 'standard', 'radius': -Rp, 'thickness': 0.0, 'material': 'mirror'})       # concave primary
    sign = -sign
    if nmirrors == 3:
        d1 = rng.uniform(0.25, 0.35) * Rp
        surfs[-1]['thickness'] = -d1
        surfs.append({'type': 'standard', 'radius': rng.choice([inf, -rng.uniform(2.0, 4.0) * Rp, rng.uniform(2.0, 4.0) * Rp]),
                      'thickness': rng.uniform(0.05, 0.11) * Rp, 'material': 'mirror'})
        surfs.append({'type': 'standard', 'radius': rng.choice([inf, rng.uniform(3.0, 6.0) * Rp, -rng.uniform(3.0, 6.0) * Rp]),
                      'thickness': 0.0, 'material': 'mirror'})
    surfs[-1]['thickness'] = -0.4 * Rp                       # replaced by the image solve in build()
    mf = rng.uniform(0.5, 3.0)
    ws = sorted(rng.sample([0.4861, 0.55, 0.5876, 0.6563], rng.choice([1, 2])))
    spec = {'object_thickness': inf, 'surfaces': surfs, 'aperture': ['EPD', rng.uniform(8.0, 20.0)], 'field_type': 'angle',
            'fields': [[0.0, 0.0, 0.0, 0.0], [0.7 * mf, 0.0, 0.0, 0.0], [mf, 0.0, 0.0, 0.0]],
            'wavelengths': [[w, j == 0] for j, w in enumerate(ws)], 'telecentric': False,
            'image_solve_defocus': rng.uniform(0.5, 3.0) * rng.choice([-1, 1]), 'has_asphere': False,
            'lens_class': 'catadioptric1' if catadioptric else f'mirror{nmirrors}'}
    return spec


def _clip(spec, rng):
    """a physical aperture away from the stop that clips the edge of the beam, differently in x and y off axis"""
    if spec['aperture'][0] != 'EPD':
        spec['aperture'] = ['EPD', rng.uniform(4.0, 9.0)]
    half = spec['aperture'][1] / 2
    cands = [i for i, sf in enumerate(spec['surfaces']) if not sf.get('is_stop')]
    if cands:
        i = rng.choice(cands)
        spec['surfaces'][i]['aperture'] = [half * rng.uniform(0.7, 0.95), rng.choice([0.0, 0.0, half * 0.1])]
    spec['clipping_aperture'] = True
    return spec


def c12_spec(rng, aspheres=None, finite=None, nsurf=None, lens_class=None, field_class=None, clip=None):
    """rotationally symmetric lens with at least two y fields.  Classes (drawn at random unless given):
    lens_class in LENS_CLASSES (refracting; 1 or 3 mirrors; one lens + one mirror), field_class in FIELD_CLASSES
    (field lists are sets: any order and sign).  About a third of the refracting lenses get a curved image surface
    (spec['image_radius'], applied by build())"""
    import lensgen
    if lens_class is None:
        lens_class = rng.choices(LENS_CLASSES, weights=[70, 12, 9, 9])[0]
    if field_class is None:
        field_class = rng.choices(FIELD_CLASSES, weights=[45, 15, 15, 15, 10])[0]
    if lens_class != 'refracting':
        spec = mirror_spec(rng, 3 if lens_class == 'mirror3' else 1, catadioptric=(lens_class == 'catadioptric1'))
        if clip:
            _clip(spec, rng)
        return _field_class(spec, rng, field_class)
    asph = (rng.random() < 0.3) if aspheres is None else aspheres
    allow = ['plane', 'standard', 'conic'] + (['even_asphere'] if asph else [])
    spec = lensgen.gen_spec(rng, nsurf=nsurf or rng.choice([2, 3, 3, 4, 4, 5, 6]), allow=allow, mirrors=False, decenter=False,
                            finite_object=finite)
    for s in spec['surfaces']:
        s.pop('coating', None) if rng.random() < 0.5 else None
    if len(spec['fields']) < 2 or max(f[0] for f in spec['fields']) == 0:
        mf = rng.uniform(1.0, 8.0)
        spec['fields'] = [[0.0, 0.0, 0.0, 0.0], [0.7 * mf, 0.0, 0.0, 0.0], [mf, 0.0, 0.0, 0.0]]
    spec['has_asphere'] = any(s.get('type') == 'even_asphere' for s in spec['surfaces'])
    if rng.random() < 0.35:
        spec['image_radius'] = rng.uniform(30.0, 150.0) * rng.choice([-1, 1])
    spec['lens_class'] = 'refracting'
    if clip or (clip is None and rng.random() < 0.3):
        _clip(spec, rng)
    return _field_class(spec, rng, field_class)


ROUTES = ('direct', 'iris_object', 'handbuilt', 'reuse', 'roundtrip', 'image_object')


def add_iris_object(o, spec, rng):
    """HISTORY: the finished lens gets a new aperture stop, a plane iris handed over as a ready-made Surface object
    (add_surface(new_surface=...)) inside one of its air gaps.  spec is updated to the resulting prescription."""
    from optiland.surfaces import Surface
    from optiland.geometries import Plane
    from optiland.coordinate_system import CoordinateSystem
    surfs = spec['surfaces']
    gaps = [i for i, sf in enumerate(surfs[:-1]) if sf.get('material', 'air') == 'air' and abs(sf['thickness']) > 1.0]
    if not gaps:
        return False
    i = rng.choice(gaps)
    frac = rng.uniform(0.25, 0.75)
    z0 = float(sum(sf['thickness'] for sf in surfs[:i]))          # vertex of surface i+1 (first lens surface at z = 0)
    t = surfs[i]['thickness']
    air = o.surface_group.surfaces[i + 1].material_post
    iris = Surface(Plane(CoordinateSystem(z=z0 + frac * t)), air, air, is_stop=True)
    o.add_surface(new_surface=iris, index=i + 2)
    for sf in surfs:
        sf['is_stop'] = False
    surfs[i]['thickness'] = frac * t
    surfs.insert(i + 1, {'type': 'standard', 'radius': float('inf'), 'thickness': (1 - frac) * t, 'is_stop': True, 'material': 'air'})
    return True


def build(spec, route='direct', rng=None):
    """the prescription reached through one of the public ROUTES (lensgen.build_via plus the stop-redeclaration history)"""
    import lensgen
    import random as _random
    rng = rng or _random.Random(0)
    if route == 'image_object' and not spec.get('image_radius'):
        spec['image_object'] = True
    if route in ('handbuilt', 'reuse', 'roundtrip'):
        o = lensgen.build_via(spec, route, rng)
    else:
        o = lensgen.build(spec)
    if route == 'iris_object':
        if not add_iris_object(o, spec, rng):
            route = 'direct'
    spec['route'] = route
    if spec.get('image_radius'):
        o.set_radius(spec['image_radius'], o.surface_group.num_surfaces - 1)
    if spec.get('image_solve_defocus') is not None:
        o.image_solve()
        k = o.surface_group.num_surfaces - 2
        t = float(np.ravel(o.surface_group.get_thickness(k))[0])
        o.set_thickness(t + spec['image_solve_defocus'], k)      # the foci are NOT on the image surface
        spec['surfaces'][-1]['thickness'] = t + spec['image_solve_defocus']
        r = tg(o, 0.0, 0.0, 0.0, 0.5, float(o.primary_wavelength))
        if not np.isfinite(r['y'][-1, 0]):
            raise ValueError('generated mirror system has no real image')
    return o


def explicit_lists(o, rng):
    """explicit wavelength lists that differ from the lens's own: with / without the primary, primary at another index"""
    own = own_wavelengths(o)
    wp = float(o.primary_wavelength)
    others = [w for w in (0.47, 0.51, 0.53, 0.6, 0.64, 0.68) if w not in own]
    a, b = rng.sample(others, 2)
    return {'with_primary_first': [wp, a], 'with_primary_last': [a, b, wp], 'without_primary_short': [a],
            'without_primary_long': [a, b] + ([rng.choice([w for w in others if w not in (a, b)])] if len(own) > 2 else [])}


def oracle_lens(o, spec, rng, level=1):
    """the whole property on one lens.  Returns (violations, counters)."""
    import lensgen
    out = []
    cnt = {}
    F = [tuple(map(float, f)) for f in o.fields.get_field_coords()]
    W = own_wavelengths(o)
    wp = float(o.primary_wavelength)
    dist = rng.choice(['hexapolar', 'uniform', 'cross', 'line_y', 'ring'])
    num = {'hexapolar': rng.choice([1, 2, 3]), 'uniform': rng.choice([4, 5, 7]), 'cross': rng.choice([3, 6]), 'line_y': rng.choice([4, 9]),
           'ring': rng.choice([3, 6, 8])}[dist]

    def run(name, fn):
        try:
            r = fn()
        except Exception as e:   # noqa   a harness failure must be seen
            import traceback
            r = [v(name, 'harness-error', traceback.format_exc()[-400:])]
        if isinstance(r, tuple):
            r = r[0]
        cnt[name] = cnt.get(name, 0) + 1
        out.extend(r)

    run('SpotDiagram', lambda: check_spot(o, F, W, num, dist))
    # every named distribution string at the documented sample points (one field, one wavelength, small counts)
    for name in DISTRIBUTIONS:
        if name == 'random':
            continue
        n_ = {'hexapolar': 1, 'uniform': 3, 'cross': 3}.get(name, rng.choice([3, 4, 5]))
        run('SpotDiagram/dist:' + name, lambda name=name, n_=n_: check_spot(o, F[-1:], [wp], n_, name))
    import lensgen as _lg
    if spec.get('route') in ('iris_object', 'handbuilt', 'reuse', 'roundtrip', 'image_object'):
        run('Prescription', lambda: [v('Prescription', 'prescription', f"{b['quantity']}: implementation {b['implementation']!r}, entered {b['entered']!r}",
                                       route=spec.get('route')) for b in _lg.prescription_problems(spec, o)])
    run('Stop', lambda: check_stop(o, spec))
    ex = explicit_lists(o, rng)
    key = rng.choice(sorted(ex))
    run('SpotDiagram/explicit:' + key, lambda: check_spot(o, F[-1:] + [(0.0, 0.35)], ex[key], 2, 'hexapolar'))
    key2 = rng.choice(sorted(ex))
    run('RayFan/explicit:' + key2, lambda: check_rayfan(o, F[:1] + [(0.0, 0.6)], ex[key2], rng.choice([4, 7])))
    run('RayFan', lambda: check_rayfan(o, F, W, rng.choice([5, 8])))
    run('EncircledEnergy', lambda: check_encircled(o, F, rng.choice(['primary', W[-1], 0.61]), num, dist, rng.choice([8, 17])))
    if level > 0:
        run('EncircledEnergy/random', lambda: check_encircled(o, F[-1:], 'primary', 60, 'random', 9))
        key3 = rng.choice(sorted(ex))
        run('RmsSpotSizeVsField/explicit:' + key3, lambda: check_rms_vs_field(o, 3, ex[key3], 2, 'hexapolar'))
    run('RmsSpotSizeVsField', lambda: check_rms_vs_field(o, rng.choice([3, 4]), 'all', 2, 'hexapolar'))
    if not spec.get('has_asphere'):
        run('PupilAberration', lambda: check_pupil_aberration(o, F, W + ([0.61] if level > 0 else []), rng.choice([4, 7]), stop=expected_stop(spec)))
    for ty in ('f-tan', 'f-theta'):
        run('Distortion:' + ty, lambda: check_distortion(o, 'all' if rng.random() < 0.5 else [0.61, wp], rng.choice([4, 6]), ty))
        run('GridDistortion:' + ty, lambda: check_grid_distortion(o, rng.choice(['primary', 0.61]), rng.choice([4, 5, 6, 7]), ty))
    run('FieldCurvature', lambda: check_field_curvature(o, 'all' if rng.random() < 0.5 else [0.61], rng.choice([3, 5])))
    cd = [0]

    def codd():
        r, n = check_coddington(o, lambda w: lensgen.model_surfaces(o, w), 'all', 4)
        cd[0] = n
        return r
    run('Coddington', codd)
    cnt['coddington_samples'] = cd[0]
    run('RayOperand', lambda: check_operands(o, rng, 3))
    run('YYbar', lambda: check_yybar(o))
    return out, cnt

"""C15 (tolerancing) kernels: samplers and the scale / inverse_scale maps used by Variable.reset
(compensators are scaled variables, perturbations are unscaled).  Names are prefixed c15_ so that they
cannot collide with the C14 agent's kernels of the same source functions."""
PT = 'optiland/tolerancing/perturbation.py'
VR = 'optiland/optimization/variable/'

MODULES = {
    'TolC15': [
        dict(name='c15_scalar_sample', file=PT, cls='ScalarSampler', func='sample'),
        dict(name='c15_range_sample', file=PT, cls='RangeSampler', func='sample',
             types={'self.index': 'int', 'self.values': 'list'}, outputs=['self.index']),
        dict(name='c15_radius_scale', file=VR + 'radius.py', cls='RadiusVariable', func='scale'),
        dict(name='c15_radius_inverse_scale', file=VR + 'radius.py', cls='RadiusVariable', func='inverse_scale'),
        dict(name='c15_thickness_scale', file=VR + 'thickness.py', cls='ThicknessVariable', func='scale'),
        dict(name='c15_thickness_inverse_scale', file=VR + 'thickness.py', cls='ThicknessVariable',
             func='inverse_scale'),
        dict(name='c15_index_scale', file=VR + 'index.py', cls='IndexVariable', func='scale'),
        dict(name='c15_index_inverse_scale', file=VR + 'index.py', cls='IndexVariable', func='inverse_scale'),
        dict(name='c15_asphere_scale', file=VR + 'asphere_coeff.py', cls='AsphereCoeffVariable', func='scale',
             types={'self.coeff_number': 'int'}),
        dict(name='c15_asphere_inverse_scale', file=VR + 'asphere_coeff.py', cls='AsphereCoeffVariable',
             func='inverse_scale', types={'self.coeff_number': 'int'}),
        dict(name='c15_conic_scale', file=VR + 'conic.py', cls='ConicVariable', func='scale'),
        dict(name='c15_conic_inverse_scale', file=VR + 'conic.py', cls='ConicVariable', func='inverse_scale'),
        dict(name='c15_tilt_scale', file=VR + 'tilt.py', cls='TiltVariable', func='scale'),
        dict(name='c15_tilt_inverse_scale', file=VR + 'tilt.py', cls='TiltVariable', func='inverse_scale'),
        dict(name='c15_decenter_scale', file=VR + 'decenter.py', cls='DecenterVariable', func='scale'),
        dict(name='c15_decenter_inverse_scale', file=VR + 'decenter.py', cls='DecenterVariable',
             func='inverse_scale'),
        dict(name='c15_poly_scale', file=VR + 'polynomial_coeff.py', cls='PolynomialCoeffVariable', func='scale'),
        dict(name='c15_poly_inverse_scale', file=VR + 'polynomial_coeff.py', cls='PolynomialCoeffVariable',
             func='inverse_scale'),
        dict(name='c15_get_thickness', file='optiland/surfaces/surface_group.py', cls='SurfaceGroup',
             func='get_thickness', types={'self.positions': 'list', 'surface_number': 'int'}),
        dict(name='c15_radius_get', file=VR + 'radius.py', cls='RadiusVariable', func='get_value',
             types={'self._surfaces.radii': 'list', 'self.surface_number': 'int', 'self.apply_scaling': 'bool'},
             calls={'self.scale': 'c15_radius_scale'}),
    ],
}

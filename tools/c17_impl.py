"""Implementation-side driver for property C17 (run in a subprocess with PYTHONPATH=<repo>).

usage: python c17_impl.py job.json out.json
Everything here calls the REAL optiland code; it produces
  * unit cases for the hand models (PolarizedRays.update / _get_3d_electric_field / update_intensity,
    PolarizationState, create_polarization, quarter/half-wave constructors),
  * recorded polarization ray traces through generated lenses (per-surface k0, k1, Jones matrix),
  * the property stated directly as numerical oracles on the implementation (`oracles`).
"""
import json
import math
import random
import sys
import warnings

import numpy as np

warnings.simplefilter('ignore')
np.seterr(all='ignore')


def cflat(m):
    return [float(v) for z in np.ravel(m) for v in (complex(z).real, complex(z).imag)]


def unit3(rng):
    while True:
        v = np.array([rng.gauss(0, 1) for _ in range(3)])
        n = np.linalg.norm(v)
        if n > 1e-3:
            return v / n


def make_rays(k0s, k1s):
    from optiland.rays import PolarizedRays
    n = len(k0s)
    z = np.zeros(n)
    k1 = np.array(k1s, dtype=float)
    r = PolarizedRays(z.copy(), z.copy(), z.copy(), k1[:, 0].copy(), k1[:, 1].copy(), k1[:, 2].copy(),
                      np.ones(n), np.full(n, 0.55))
    k0 = np.array(k0s, dtype=float)
    r.L0, r.M0, r.N0 = k0[:, 0].copy(), k0[:, 1].copy(), k0[:, 2].copy()
    return r


def rand_cmat(rng, scale=1.0):
    return np.array([[complex(rng.uniform(-1, 1), rng.uniform(-1, 1)) * scale for _ in range(3)] for _ in range(3)])


# ------------------------------------------------------------------ unit cases
def update_cases(rng, n):
    from optiland.jones import JonesFresnel
    out = []
    k0s, k1s, Js, Ps, kinds = [], [], [], [], []
    for i in range(n):
        k0 = unit3(rng)
        c = i % 8
        if c == 0:
            k1 = k0.copy(); kind = 'parallel'
        elif c == 1:
            k1 = -k0; kind = 'antiparallel'
        elif c == 2:
            k0 = np.array([0.0, 0.0, 1.0]); k1 = np.array([0.0, 0.0, 1.0]); kind = 'axial'
        else:
            k1 = unit3(rng); kind = 'generic'
            if c == 3:     # small deviation (paraxial refraction)
                k1 = k0 + 0.05 * k1; k1 /= np.linalg.norm(k1); kind = 'small-angle'
        if i == 5:
            k0 = np.array([1.0, 0.0, 0.0]); k1 = k0.copy(); kind = 'degenerate-x'
        if i % 8 in (6, 7) or i in (9, 10, 11):
            # directions that differ by rounding noise / by a deviation just below and above the 1e-8 threshold
            d = unit3(rng); d -= d.dot(k0) * k0; d /= np.linalg.norm(d)
            eps, kind = {6: (1.3e-16, 'near-parallel-noise'), 7: (3e-13, 'near-parallel-1e-13'), 1: (5e-9, 'just-below-tol'),
                         2: (2e-8, 'just-above-tol'), 3: (-1.1e-16, 'near-antiparallel-noise')}[i % 8]
            k1 = k0 + eps * d
            k1 /= np.linalg.norm(k1)
            if i % 8 == 3:
                k1 = -k1
        k0s.append(k0); k1s.append(k1); kinds.append(kind)
        Ps.append(np.eye(3, dtype=complex) if i % 2 == 0 else rand_cmat(rng))
    for mode in ('none', 'jones'):
        rays = make_rays(k0s, k1s)
        P = np.array(Ps)
        rays.p = P.copy()
        if mode == 'none':
            J = None
            rays.update()
        else:
            J = np.array([rand_cmat(rng) for _ in range(n)])
            rays.update(J)
        for i in range(n):
            orth = None
            if J is None and i % 2 == 0 and np.all(np.isfinite(rays.p[i])):
                Q = np.real(rays.p[i])         # P = identity: the surface matrix itself; must be orthogonal and map k0 to k1
                orth = float(max(np.max(np.abs(Q.T @ Q - np.eye(3))), np.max(np.abs(Q @ k0s[i] - k1s[i]))))
            out.append({'kind': kinds[i] + '/' + mode, 'k0': [float(x) for x in k0s[i]], 'k1': [float(x) for x in k1s[i]],
                        'J': None if J is None else cflat(J[i]), 'P': cflat(P[i]), 'out': cflat(rays.p[i]), 'orth_err': orth})
    return out


NAMES = ['H', 'V', 'L+45', 'L-45', 'RCP', 'LCP']


def field_cases(rng, n):
    from optiland.rays import PolarizationState, create_polarization
    out = []
    for i in range(n):
        k = unit3(rng)
        if i % 7 == 0:
            k = np.array([0.0, 0.0, 1.0])
        if i % 3 == 0:
            name = NAMES[(i // 3) % 6]
            st = create_polarization(name)
            raw = None
        else:
            name = None
            raw = [rng.uniform(-2, 2), rng.uniform(-2, 2), rng.uniform(-math.pi, math.pi), rng.uniform(-math.pi, math.pi)]
            st = PolarizationState(True, *raw)
        i0 = 1.0 if i % 2 == 0 else rng.uniform(0.2, 3.0)
        rays = make_rays([k], [k])
        rays._L0, rays._M0, rays._N0 = np.array([k[0]]), np.array([k[1]]), np.array([k[2]])
        rays._i0 = np.array([i0])
        P = rand_cmat(rng)
        rays.p = np.array([P])
        E0 = rays._get_3d_electric_field(st)
        rays.update_intensity(st)
        ipol = float(rays.i[0])
        rays.update_intensity(PolarizationState(False))
        iun = float(rays.i[0])
        # the same accumulated (complex) matrix seen by orthogonal pairs of input states, and the reference |P E|^2
        pairs = {}
        d, g = rng.uniform(-3, 3), rng.uniform(-3, 3)
        aa, bb = rng.uniform(0.1, 1), rng.uniform(0.1, 1)
        for lab, r1, r2 in (('H/V', [1, 0, 0, 0], [0, 1, 0, 0]), ('RCP/LCP', [1, 1, 0, -math.pi / 2], [1, 1, 0, math.pi / 2]),
                            ('elliptical', [aa, bb, g, g + d], [bb, -aa, g, g + d])):
            vals = []
            for rw in (r1, r2):
                rays.update_intensity(PolarizationState(True, *rw))
                vals.append(float(rays.i[0]))
            pairs[lab] = vals
        ex, ey = ref_field(k, [1, 0, 0, 0]), ref_field(k, [0, 1, 0, 0])
        ref_un = float((np.sum(np.abs(P @ ex) ** 2) + np.sum(np.abs(P @ ey) ** 2)) / 2 * i0)
        out.append({'k': [float(x) for x in k], 'name': name, 'raw': raw,
                    'state': [st.Ex, st.Ey, st.phase_x, st.phase_y], 'i0': i0, 'P': cflat(P),
                    'E0': cflat(E0[0]), 'ipol': ipol, 'iunpol': iun, 'pairs': pairs, 'ref_unpol': ref_un,
                    'ref_pol': float(np.sum(np.abs(P @ ref_field(k, [st.Ex, st.Ey, st.phase_x, st.phase_y])) ** 2))})
    return out


def named_cases():
    from optiland.rays import create_polarization
    out = []
    for nm in NAMES + ['unpolarized', 'X', 'h', '']:
        try:
            st = create_polarization(nm)
            out.append({'name': nm, 'polarized': bool(st.is_polarized),
                        'state': [st.Ex, st.Ey, st.phase_x, st.phase_y] if st.is_polarized else None})
        except ValueError:
            out.append({'name': nm, 'error': True})
    return out


def wave_plates(rng, n):
    from optiland.jones import JonesQuarterWaveRetarder, JonesHalfWaveRetarder, JonesLinearRetarder
    out = []
    for i in range(n):
        th = rng.uniform(-math.pi, math.pi)
        q, h = JonesQuarterWaveRetarder(th), JonesHalfWaveRetarder(th)
        out.append({'theta': th, 'q': [float(q.retardance), float(q.theta)], 'h': [float(h.retardance), float(h.theta)],
                    'q_is_retarder': isinstance(q, JonesLinearRetarder)
                    and type(q).calculate_matrix is JonesLinearRetarder.calculate_matrix,
                    'h_is_retarder': isinstance(h, JonesLinearRetarder)
                    and type(h).calculate_matrix is JonesLinearRetarder.calculate_matrix})
    q0, h0 = JonesQuarterWaveRetarder(), JonesHalfWaveRetarder()
    out.append({'theta': 0.0, 'q': [float(q0.retardance), float(q0.theta)], 'h': [float(h0.retardance), float(h0.theta)],
                'q_is_retarder': True, 'h_is_retarder': True})
    return out


# ------------------------------------------------------------------ recorded traces
def strip_spec(spec, tilt):
    for s in spec['surfaces']:
        s.pop('aperture', None)
        s.pop('coating', None)
        if not tilt:
            for k in ('dx', 'dy', 'rx', 'ry'):
                s.pop(k, None)
        if isinstance(s.get('material'), list) and s['material'][0] == 'ideal':
            s['material'][2] = 0.0
    return spec


# ---- independent reference (own code, nothing from optiland): launch basis, s-p-k frames, textbook Fresnel ----
XH = np.array([1.0, 0.0, 0.0])


def ref_field(k, st4):
    """E0 of the stated state (Ex, Ey, phase_x, phase_y; normalised) for launch direction k"""
    p = np.cross(k, XH); p = p / np.linalg.norm(p)
    s = np.cross(p, k)
    ex, ey, px, py = st4
    return ex * np.exp(1j * px) * s + ey * np.exp(1j * py) * p


def ref_element(elem):
    """textbook Jones matrix (padded) of an element in the s-p frame: retarder (d, theta) or circular polarizer"""
    if elem[0] == 'retarder':
        d, th = elem[1], elem[2]
        c, sn = math.cos(th), math.sin(th)
        R = np.array([[c, -sn], [sn, c]])
        M = R @ np.diag([np.exp(-1j * d / 2), np.exp(1j * d / 2)]) @ R.T
    else:
        e = np.array([1.0, -1j if elem[1] == 'RCP' else 1j]) / math.sqrt(2)
        M = np.outer(e, e.conj())
    J = np.eye(3, dtype=complex)
    J[:2, :2] = M
    return J


def ref_surface(k0, k1, n1, n2, reflective, fresnel, elem=None):
    """polarization matrix O_out J O_in of one surface from the ray directions and the two indices"""
    s = np.cross(k0, k1)
    if np.linalg.norm(s) < 1e-8:
        s = np.cross(k0, XH)
    s = s / np.linalg.norm(s)
    p0, p1 = np.cross(k0, s), np.cross(k1, s)
    J = np.eye(3, dtype=complex)
    if elem is not None:
        if reflective:
            return None
        J = ref_element(elem)
    elif fresnel:
        if reflective:
            return None                       # Fresnel reflection is not part of the generated layouts
        nv = n2 * k1 - n1 * k0                # refraction: the normal is along n2 k1 - n1 k0
        if np.linalg.norm(nv) < 1e-12:        # equal indices: nothing happens at the interface
            return np.stack([s, p1, k1], axis=1) @ np.stack([s, p0, k0], axis=0).astype(complex)
        nv = nv / np.linalg.norm(nv)
        ci = abs(float(np.dot(k0, nv)))
        st = n1 / n2 * math.sqrt(max(0.0, 1 - ci * ci))
        ct = math.sqrt(max(0.0, 1 - st * st))
        ts = 2 * n1 * ci / (n1 * ci + n2 * ct)
        tp = 2 * n1 * ci / (n2 * ci + n1 * ct)
        J = np.diag([ts, tp, 1.0]).astype(complex)
    return np.stack([s, p1, k1], axis=1) @ J @ np.stack([s, p0, k0], axis=0)


def norm_state(raw):
    m = math.hypot(raw[0], raw[1])
    return [raw[0] / m, raw[1] / m, raw[2], raw[3]]


NAMED_RAW = {'H': [1, 0, 0, 0], 'V': [0, 1, 0, 0], 'L+45': [1, 1, 0, 0], 'L-45': [1, -1, 0, 0],
             'RCP': [1, 1, 0, -math.pi / 2], 'LCP': [1, 1, 0, math.pi / 2]}


def mirror_first_spec(rng, cls):
    """layouts whose first ray-bending surface is a mirror (object at infinity, oblique field)"""
    inf = float('inf')
    n = rng.uniform(1.4, 1.9)
    concave = cls in ('concave-mirror-first', 'mirror-then-fresnel-lens') and rng.random() < 0.8
    mirror = {'type': 'standard', 'radius': (-rng.uniform(80, 300) if concave else inf), 'thickness': -rng.uniform(8, 20),
              'material': 'mirror', 'is_stop': True}
    surfs = [mirror]
    if cls == 'mirror-then-fresnel-plate':
        surfs += [{'type': 'standard', 'radius': inf, 'thickness': -rng.uniform(2, 6), 'material': ['ideal', n, 0.0], 'is_stop': False},
                  {'type': 'standard', 'radius': inf, 'thickness': -rng.uniform(5, 15), 'material': 'air', 'is_stop': False}]
    elif cls == 'mirror-then-fresnel-lens':
        surfs += [{'type': 'standard', 'radius': -rng.uniform(30, 90), 'thickness': -rng.uniform(2, 5), 'material': ['ideal', n, 0.0], 'is_stop': False},
                  {'type': 'standard', 'radius': rng.uniform(40, 120), 'thickness': -rng.uniform(5, 15), 'material': 'air', 'is_stop': False}]
    elif cls == 'fold-mirror-first' and rng.random() < 0.5:
        surfs += [{'type': 'standard', 'radius': inf, 'thickness': -rng.uniform(3, 9), 'material': 'air', 'is_stop': False}]
    th = rng.uniform(8, 40) if not concave else rng.uniform(4, 15)
    return {'object_thickness': inf, 'surfaces': surfs, 'aperture': ['EPD', rng.uniform(1.0, 3.0)], 'field_type': 'angle',
            'fields': [[0.0, 0.0, 0.0, 0.0], [th, 0.0, 0.0, 0.0]],
            'wavelengths': [[0.55, True]], 'telecentric': False}


MIRROR_CLASSES = ['fold-mirror-first', 'concave-mirror-first', 'mirror-then-fresnel-plate', 'mirror-then-fresnel-lens']
ELEMENT_CLASSES = ['retarder-on-surface', 'quarter-wave-then-fresnel', 'circular-polarizer-on-surface']


def element_spec(rng, cls):
    """refracting lens (object at infinity, oblique/skew field) that carries a retarding or circularly selective element"""
    inf = float('inf')
    n = rng.uniform(1.4, 1.9)
    surfs = [{'type': 'standard', 'radius': inf, 'thickness': rng.uniform(1, 3), 'material': 'air', 'is_stop': True},
             {'type': 'standard', 'radius': rng.choice([inf, rng.uniform(40, 150)]), 'thickness': rng.uniform(2, 6),
              'material': ['ideal', n, 0.0], 'is_stop': False},
             {'type': 'standard', 'radius': rng.choice([inf, -rng.uniform(40, 150)]), 'thickness': rng.uniform(5, 20),
              'material': 'air', 'is_stop': False}]
    return {'object_thickness': inf, 'surfaces': surfs, 'aperture': ['EPD', rng.uniform(1.0, 4.0)], 'field_type': 'angle',
            'fields': [[0.0, 0.0, 0.0, 0.0], [rng.uniform(5, 35), 0.0, 0.0, 0.0]], 'wavelengths': [[0.55, True]], 'telecentric': False}


def attach_elements(o, rng, cls):
    """put library Jones elements on surfaces through the library's own polarized-coating mechanism"""
    from optiland.coatings import BaseCoatingPolarized
    from optiland import jones as Jm

    class ElementCoating(BaseCoatingPolarized):
        def __init__(self, jones):
            self.jones = jones
    elems = {}
    if cls == 'quarter-wave-then-fresnel':
        o.surface_group.set_fresnel_coatings()
        th = rng.uniform(-math.pi, math.pi)
        o.surface_group.surfaces[1].coating = ElementCoating(Jm.JonesQuarterWaveRetarder(th))
        elems[1] = ['retarder', math.pi / 2, th]
    elif cls == 'retarder-on-surface':
        for si in (1, rng.choice([2, 3])):
            d, th = rng.uniform(-2 * math.pi, 2 * math.pi), rng.uniform(-math.pi, math.pi)
            o.surface_group.surfaces[si].coating = ElementCoating(Jm.JonesLinearRetarder(d, th))
            elems[si] = ['retarder', d, th]
    else:
        o.surface_group.set_fresnel_coatings()
        nm = rng.choice(['RCP', 'LCP'])
        o.surface_group.surfaces[1].coating = ElementCoating(Jm.JonesPolarizerRCP() if nm == 'RCP' else Jm.JonesPolarizerLCP())
        elems[1] = ['circular', nm]
    return elems


def build_shared(spec):
    """the documented alternative form material=<BaseMaterial instance>: ONE object per medium, shared by every
    surface that borders it (dummy / stop / image surfaces then have the same object on both sides)"""
    from optiland.optic import Optic
    from optiland.materials import IdealMaterial, Material
    from optiland.physical_apertures import RadialAperture
    cache = {}

    def medium(m):
        key = json.dumps(m)
        if key not in cache:
            if m == 'air':
                cache[key] = IdealMaterial(n=1.0, k=0.0)
            elif m[0] == 'ideal':
                cache[key] = IdealMaterial(n=m[1], k=m[2])
            else:
                cache[key] = Material(*m[1:])
        return cache[key]
    o = Optic()
    o.add_surface(index=0, radius=np.inf, thickness=spec['object_thickness'], material=medium('air'))
    for i, sf in enumerate(spec['surfaces']):
        kw = {k: sf[k] for k in ('radius', 'conic', 'dx', 'dy', 'rx', 'ry') if k in sf}
        kw.setdefault('radius', np.inf)
        if sf.get('aperture'):
            kw['aperture'] = RadialAperture(r_max=sf['aperture'][0], r_min=sf['aperture'][1])
        m = sf.get('material', 'air')
        o.add_surface(index=i + 1, thickness=sf['thickness'], is_stop=bool(sf.get('is_stop')),
                      material=('mirror' if m == 'mirror' else medium(m)), **kw)
    last = spec['surfaces'][-1].get('material', 'air')
    o.add_surface(index=len(spec['surfaces']) + 1, **({} if last == 'mirror' else {'material': medium(last)}))
    o.set_aperture(spec['aperture'][0], spec['aperture'][1])
    o.set_field_type(spec['field_type'])
    for f in spec['fields']:
        o.add_field(y=f[0], x=f[1], vx=f[2], vy=f[3])
    for w, prim in spec['wavelengths']:
        o.add_wavelength(w, is_primary=prim)
    return o


def shared_media_spec(rng, variant):
    """refracting lens followed by dummy surfaces (stop / reference plane / image) in the SAME medium object"""
    inf = float('inf')
    n = rng.uniform(1.4, 1.9)
    glass = ['ideal', n, 0.0]
    surfs = [{'type': 'standard', 'radius': rng.uniform(25, 90), 'thickness': rng.uniform(2, 6), 'material': glass, 'is_stop': False}]
    if variant == 'dummy-in-glass':
        surfs.append({'type': 'standard', 'radius': inf, 'thickness': rng.uniform(1, 4), 'material': glass, 'is_stop': False})
    surfs.append({'type': 'standard', 'radius': -rng.uniform(30, 120), 'thickness': rng.uniform(2, 8), 'material': 'air', 'is_stop': False})
    surfs.append({'type': 'standard', 'radius': inf, 'thickness': rng.uniform(2, 8), 'material': 'air', 'is_stop': True})
    if variant == 'two-dummies':
        surfs.append({'type': 'standard', 'radius': rng.uniform(60, 200), 'thickness': rng.uniform(2, 8), 'material': 'air', 'is_stop': False})
    surfs[-1]['thickness'] = rng.uniform(15, 40)
    return {'object_thickness': inf, 'surfaces': surfs, 'aperture': ['EPD', rng.uniform(3.0, 8.0)], 'field_type': 'angle',
            'fields': [[0.0, 0.0, 0.0, 0.0], [rng.uniform(5, 25), 0.0, 0.0, 0.0]], 'wavelengths': [[0.55, True]], 'telecentric': False}


def aperture_spec(rng):
    """singlet / doublet whose rear surface carries a physical aperture smaller than the beam: part of the bundle is clipped"""
    inf = float('inf')
    n = rng.uniform(1.45, 1.8)
    epd = rng.uniform(8.0, 14.0)
    surfs = [{'type': 'standard', 'radius': rng.uniform(40, 120), 'thickness': rng.uniform(3, 6), 'material': ['ideal', n, 0.0], 'is_stop': True},
             {'type': 'standard', 'radius': -rng.uniform(60, 200), 'thickness': rng.uniform(20, 50), 'material': 'air', 'is_stop': False,
              'aperture': [epd / 2 * rng.uniform(0.45, 0.8), 0.0]}]
    if rng.random() < 0.5:
        surfs.insert(1, {'type': 'standard', 'radius': inf, 'thickness': rng.uniform(1, 3), 'material': ['ideal', rng.uniform(1.5, 1.9), 0.0],
                         'is_stop': False, 'aperture': [epd / 2 * rng.uniform(0.7, 0.95), epd / 2 * rng.choice([0.0, 0.15])]})
    return {'object_thickness': inf, 'surfaces': surfs, 'aperture': ['EPD', epd], 'field_type': 'angle',
            'fields': [[0.0, 0.0, 0.0, 0.0], [rng.uniform(2, 12), 0.0, 0.0, 0.0]], 'wavelengths': [[0.55, True]], 'telecentric': False}


SHARED_VARIANTS = ['stop-in-air', 'dummy-in-glass', 'two-dummies']


def plan(seed, n_lens, n_mirror, n_element, n_shared, n_aperture):
    """list of lens jobs.  The corpus comes first and does not depend on the seed: one fixed case per class that
    matters, so that a change of the random stream cannot lose it."""
    import lensgen
    jobs = []
    crng = random.Random(4711)
    for cls in MIRROR_CLASSES:
        jobs.append({'layout': cls, 'spec': mirror_first_spec(crng, cls), 'coated': cls.startswith('mirror-then-fresnel'), 'corpus': True})
    for cls in ELEMENT_CLASSES:
        jobs.append({'layout': cls, 'spec': element_spec(crng, cls), 'coated': True, 'corpus': True})
    for k, v in enumerate(SHARED_VARIANTS):
        jobs.append({'layout': 'shared-media:' + v, 'spec': shared_media_spec(crng, v), 'coated': k % 2 == 1, 'builder': 'shared', 'corpus': True})
    for k in range(2):
        jobs.append({'layout': 'aperture-clips-bundle', 'spec': aperture_spec(crng), 'coated': k == 1, 'keep_apertures': True,
                     'builder': 'shared' if k else 'plain', 'corpus': True})
    rng = random.Random(seed)
    for li in range(n_lens):
        tilt = (li % 3 == 2)
        job = {'layout': 'generic', 'coated': li % 2 == 1, 'tilt': tilt}
        spec = lensgen.gen_spec(rng, nsurf=rng.choice([1, 2, 3, 4, 5]), allow=['plane', 'standard', 'conic'],
                                mirrors=(li % 5 == 4), decenter=tilt)
        strip_spec(spec, tilt)
        if tilt:
            sf = spec['surfaces'][rng.randrange(len(spec['surfaces']))]
            sf['rx'] = rng.uniform(-0.15, 0.15); sf['ry'] = rng.uniform(-0.15, 0.15)
        if li % 4 == 0 and not any(x.get('material') == 'mirror' for x in spec['surfaces']):
            # an index-matched (dummy) surface: same medium on both sides -> k1 = k0 up to rounding
            pos = rng.randrange(len(spec['surfaces']))
            before = spec['surfaces'][pos - 1]['material'] if pos > 0 else 'air'
            spec['surfaces'].insert(pos, {'type': 'standard', 'radius': rng.uniform(20, 150) * rng.choice([-1, 1]),
                                          'thickness': rng.uniform(0.5, 3.0), 'is_stop': False, 'material': before})
            job['matched'] = True
            job['layout'] = 'index-matched'
        elif any(x.get('material') == 'mirror' for x in spec['surfaces']):
            job['layout'] = 'mirror-later'
        # the same prescription reached through another public route
        job['route'] = ['direct', 'handbuilt', 'reuse', 'roundtrip', 'direct'][li % 5] if not tilt else 'direct'
        job['spec'] = spec
        jobs.append(job)
    for k in range(n_mirror):
        cls = MIRROR_CLASSES[k % 4]
        jobs.append({'layout': cls, 'spec': mirror_first_spec(rng, cls), 'coated': cls.startswith('mirror-then-fresnel')})
    for k in range(n_element):
        cls = ELEMENT_CLASSES[k % 3]
        jobs.append({'layout': cls, 'spec': element_spec(rng, cls), 'coated': True})
    for k in range(n_shared):
        v = SHARED_VARIANTS[k % 3]
        jobs.append({'layout': 'shared-media:' + v, 'spec': shared_media_spec(rng, v), 'coated': k % 2 == 0, 'builder': 'shared'})
    for k in range(n_aperture):
        jobs.append({'layout': 'aperture-clips-bundle', 'spec': aperture_spec(rng), 'coated': k % 2 == 0, 'keep_apertures': True,
                     'builder': 'shared' if k % 3 == 2 else 'plain'})
    return jobs


def traces(seed, n_lens, n_mirror=8, n_element=6, n_shared=3, n_aperture=3):
    import lensgen
    from optiland.rays import PolarizedRays, PolarizationState, create_polarization
    from optiland.rays.real_rays import RealRays
    from optiland.rays.ray_generator import RayGenerator
    rng = random.Random(seed + 99)
    out = []
    rec = []
    launch = []
    clipped = []
    orig = PolarizedRays.update
    orig_gen = RayGenerator.generate_rays
    orig_clip = RealRays.clip

    def wrapped(self, jones_matrix=None):
        k0 = np.array([self.L0, self.M0, self.N0]).T.copy()
        k1 = np.array([self.L, self.M, self.N]).T.copy()
        J = None if jones_matrix is None else np.array(jones_matrix).copy()
        r = orig(self, jones_matrix)
        rec.append((k0, k1, J, np.array(self.p).copy()))
        return r

    def gen_wrapped(self, *a, **kw):
        rays = orig_gen(self, *a, **kw)
        # the directions and intensities actually launched, copied by the harness at launch time
        # (never read back from the rays object afterwards)
        launch.append((np.array([rays.L, rays.M, rays.N]).T.copy(), np.array(rays.i, dtype=float).copy()))
        return rays

    def clip_wrapped(self, condition):
        clipped.append(np.array(condition, dtype=bool).copy())
        return orig_clip(self, condition)
    PolarizedRays.update = wrapped
    RayGenerator.generate_rays = gen_wrapped
    RealRays.clip = clip_wrapped
    try:
        for li, job in enumerate(plan(seed, n_lens, n_mirror, n_element, n_shared, n_aperture)):
            layout, spec, coated = job['layout'], job['spec'], job['coated']
            matched = bool(job.get('matched'))
            tilt = bool(job.get('tilt'))
            elems = {}
            route = job.get('route', 'direct')
            has_tilt = any(abs(s.get('rx', 0)) + abs(s.get('ry', 0)) > 0 for s in spec['surfaces'])
            try:
                if job.get('builder') == 'shared':
                    o = build_shared(spec)
                    route = 'shared-objects'
                elif route != 'direct':
                    o = lensgen.build_via(spec, route, rng)
                else:
                    o = lensgen.build(spec)
                if layout in ELEMENT_CLASSES:
                    elems = attach_elements(o, rng, layout)
                elif coated:
                    o.surface_group.set_fresnel_coatings()
                raw = [rng.uniform(-2, 2), rng.uniform(-2, 2), rng.uniform(-math.pi, math.pi), rng.uniform(-math.pi, math.pi)]
                st = PolarizationState(True, *raw)
                o.set_polarization(st)
                w = o.primary_wavelength
                if layout in MIRROR_CLASSES or layout in ELEMENT_CLASSES or job.get('builder') or job.get('keep_apertures'):
                    Hy = 1.0
                    Hx = rng.choice([0.0, rng.uniform(-0.6, 0.6)])      # skew launch: x field angle = Hx * max field
                else:
                    Hy = rng.choice([0.0, 1.0, rng.uniform(0, 1)])
                    Hx = rng.uniform(-0.3, 0.3) if Hy else 0.0
                del rec[:]
                del launch[:]
                del clipped[:]
                dist = 'hexapolar' if (matched or job.get('keep_apertures')) else rng.choice(['line_y', 'line_x', 'hexapolar'])
                rays = o.trace(Hx, Hy, w, num_rays=3, distribution=dist)
                sg = o.surface_group.surfaces[1:]
                media = [(float(np.ravel(sf.material_pre.n(w))[0]), float(np.ravel(sf.material_post.n(w))[0]),
                          bool(sf.is_reflective), sf.coating is not None, elems.get(si + 1)) for si, sf in enumerate(sg)]
            except Exception as e:       # lens not traceable (e.g. paraxial failure): skipped, counted
                out.append({'lens': li, 'layout': layout, 'skipped': type(e).__name__ + ': ' + str(e)[:80]})
                continue
            n = rays.x.size
            kfin = np.array([rays.L, rays.M, rays.N]).T
            klaunch, ilaunch = launch[-1]
            clip_mask = np.zeros(n, dtype=bool)
            for c in clipped:
                if c.shape == clip_mask.shape:
                    clip_mask |= c
            ipol = rays.i.copy()
            # other states on the same accumulated matrices
            ints = {}
            for nm in NAMES:
                rays.update_intensity(create_polarization(nm))
                ints[nm] = rays.i.copy()
            # a random orthogonal pair:  (a, b e^{i d})  and  (b, -a e^{i d})
            a, b, d, g = rng.uniform(0.1, 1), rng.uniform(0.1, 1), rng.uniform(-3, 3), rng.uniform(-3, 3)
            s1 = PolarizationState(True, a, b, g, g + d)
            s2 = PolarizationState(True, b, -a, g, g + d)
            rays.update_intensity(s1); ints['r1'] = rays.i.copy()
            rays.update_intensity(s2); ints['r2'] = rays.i.copy()
            # a pair that differs only in the relative phase:  (1, e^{i d})/sqrt2  and  (1, -e^{i d})/sqrt2
            s3 = PolarizationState(True, 1.0, 1.0, 0.0, d)
            s4 = PolarizationState(True, 1.0, 1.0, 0.0, d + math.pi)
            rays.update_intensity(s3); ints['c1'] = rays.i.copy()
            rays.update_intensity(s4); ints['c2'] = rays.i.copy()
            rays.update_intensity(PolarizationState(False)); iun = rays.i.copy()
            E0 = rays._get_3d_electric_field(st)
            E1 = rays.get_output_field(E0)
            idx = list(range(n))
            rng.shuffle(idx)
            if clip_mask.any():            # both kinds of rays: stopped by a physical aperture, and passing
                idx = [r for r in idx if clip_mask[r]][:4] + [r for r in idx if not clip_mask[r]][:4]
            else:
                idx = idx[:(8 if matched else 4)]
            for r in idx:
                fin = bool(np.all(np.isfinite(kfin[r])) and np.all(np.isfinite(rays.p[r])))
                surfs = [{'k0': [float(x) for x in k0[r]], 'k1': [float(x) for x in k1[r]],
                          'J': None if J is None else cflat(J[r])} for (k0, k1, J, _) in rec]
                item = {'lens': li, 'layout': layout, 'elements': {str(k): v for k, v in elems.items()}, 'spec': spec, 'coated': coated, 'tilted': has_tilt, 'matched': matched,
                        'ray': int(r), 'finite': fin, 'Hx': Hx, 'Hy': Hy,
                        'raw': raw, 'state': [st.Ex, st.Ey, st.phase_x, st.phase_y],
                        'klaunch': [float(x) for x in klaunch[r]], 'kfinal': [float(x) for x in kfin[r]],
                        'klaunch_stored': [float(rays._L0[r]), float(rays._M0[r]), float(rays._N0[r])],
                        'surfs': surfs, 'P': cflat(rays.p[r]), 'ipol': float(ipol[r]), 'iunpol': float(iun[r]),
                        'i0': float(ilaunch[r]), 'i0_stored': float(rays._i0[r]), 'clipped': bool(clip_mask[r]),
                        'route': route, 'corpus': bool(job.get('corpus')), 'ints': {k: float(v[r]) for k, v in ints.items()},
                        'Edotk': float(abs(np.sum(E1[r] * kfin[r]))), 'E1': cflat(E1[r]), 'complex_P': float(np.max(np.abs(np.imag(rays.p[r])))) if fin else 0.0}
                # ---- independent reference for the STATED states, from the launch direction copied at launch ----
                if fin and len(rec) == len(media) and abs(klaunch[r][1]) + abs(klaunch[r][2]) > 1e-9:
                    kl = klaunch[r]
                    stn = norm_state(raw)
                    e0 = ref_field(kl, stn)
                    item['ref_launch_field_err'] = float(np.max(np.abs(E0[r] - e0)))
                    # field carried by the implementation's matrices, surface by surface
                    item['ref_Edotk_surf'] = [float(abs(np.sum((Pi[r] @ e0) * k1[r]))) for (_, k1, _, Pi) in rec]
                    Pref = np.eye(3, dtype=complex)
                    ok = True
                    jerr = 0.0
                    for (k0, k1, J, _), (n1, n2, refl, coat, elem) in zip(rec, media):
                        Q = ref_surface(k0[r], k1[r], n1, n2, refl, coat, elem)
                        if Q is None:
                            ok = False
                            break
                        Pref = Q @ Pref
                    states = dict(NAMED_RAW)
                    states['stated'] = raw
                    if ok:
                        item['ref_P_err'] = float(np.max(np.abs(Pref - rays.p[r])))
                    ref_i, impl_P_i = {}, {}
                    for nm, rw in states.items():
                        e = ref_field(kl, norm_state(rw))
                        impl_P_i[nm] = float(np.sum(np.abs(rays.p[r] @ e) ** 2))
                        if ok:
                            ref_i[nm] = float(np.sum(np.abs(Pref @ e) ** 2))
                    ex, ey = ref_field(kl, [1, 0, 0, 0]), ref_field(kl, [0, 1, 0, 0])
                    impl_P_i['unpolarized'] = float((np.sum(np.abs(rays.p[r] @ ex) ** 2) + np.sum(np.abs(rays.p[r] @ ey) ** 2)) / 2)
                    if ok:
                        ref_i['unpolarized'] = float((np.sum(np.abs(Pref @ ex) ** 2) + np.sum(np.abs(Pref @ ey) ** 2)) / 2)
                    item['ref_int'] = ref_i            # own frames + textbook Fresnel + own launch field
                    item['ref_int_implP'] = impl_P_i   # implementation's matrix applied to own launch field
                    item['impl_int'] = dict({nm: item['ints'][nm] for nm in NAMES}, stated=item['ipol'], unpolarized=item['iunpol'])
                    # launch direction requested: object at infinity, field angles (fy, fx): k ~ (-tan fx, tan fy, 1)
                    if spec['object_thickness'] == float('inf') and spec['field_type'] == 'angle':
                        mx = max(max(abs(f[0]) for f in spec['fields']), max(abs(f[1]) for f in spec['fields']))
                        fy, fx = math.radians(mx * Hy), math.radians(mx * Hx)
                        kk = np.array([-math.tan(fx), math.tan(fy), 1.0]); kk /= np.linalg.norm(kk)
                        item['ref_launch_dir_err'] = float(min(np.max(np.abs(kk - kl)), np.max(np.abs(kk * [-1, 1, 1] - kl))))
                out.append(item)
    finally:
        PolarizedRays.update = orig
        RayGenerator.generate_rays = orig_gen
        RealRays.clip = orig_clip
    return out


# ------------------------------------------------------------------ the property as numerical oracles
def jm(obj, aoi=None, reflect=False, w=0.55):
    rays = make_rays([[0, 0, 1.0]], [[0, 0, 1.0]])
    return obj.calculate_matrix(rays, reflect=reflect, aoi=None if aoi is None else np.array([aoi]))[0]


def rot(t):
    c, s = math.cos(t), math.sin(t)
    return np.array([[c, -s, 0], [s, c, 0], [0, 0, 1.0]], dtype=complex)


def state_vec(st):
    return np.array([st.Ex * np.exp(1j * st.phase_x), st.Ey * np.exp(1j * st.phase_y), 0.0])


def oracles(seed, n, tol=1e-9):
    """returns (count, list of failures); each failure carries class / clause / inputs / entry"""
    from optiland import jones as J
    from optiland.materials import IdealMaterial
    from optiland.rays import create_polarization
    rng = random.Random(seed)
    fails = []
    cnt = 0

    def bad(d):
        if len(fails) < 40:
            fails.append(d)
    # Fresnel
    for i in range(n):
        n1, n2 = rng.uniform(1, 4), rng.uniform(1, 4)
        if i % 9 == 0:
            n2 = n1
        crit = math.asin(min(1.0, n2 / n1)) if n1 > n2 else math.pi / 2
        th = rng.uniform(0, crit * 0.999) if i % 6 else 0.0
        if th >= math.pi / 2:
            th = math.pi / 2 * 0.999
        f = J.JonesFresnel(IdealMaterial(n1, 0), IdealMaterial(n2, 0))
        T = jm(f, th, False); Rm = jm(f, th, True)
        ct = math.sqrt(max(0.0, 1 - (n1 * math.sin(th) / n2) ** 2))
        q = n2 * ct / (n1 * math.cos(th))
        for lab, r, t in (('s', Rm[0, 0], T[0, 0]), ('p', Rm[1, 1], T[1, 1])):
            cnt += 1
            e = abs(r) ** 2 + q * abs(t) ** 2 - 1
            if not abs(e) <= 1e-9 * (1 + q):
                bad({'class': 'JonesFresnel', 'clause': 'energy-' + lab, 'n1': n1, 'n2': n2, 'aoi': th, 'residual': float(e)})
        if th == 0.0:
            cnt += 1
            ex = ((n1 - n2) / (n1 + n2)) ** 2
            if abs(abs(Rm[0, 0]) ** 2 - ex) > tol or abs(abs(Rm[1, 1]) ** 2 - ex) > tol:
                bad({'class': 'JonesFresnel', 'clause': 'normal-incidence', 'n1': n1, 'n2': n2})
        thb = math.atan(n2 / n1)
        if thb < crit * 0.999:
            cnt += 1
            rb = jm(f, thb, True)[1, 1]
            if abs(rb) > 1e-9:
                bad({'class': 'JonesFresnel', 'clause': 'brewster', 'n1': n1, 'n2': n2, 'aoi': thb, 'rp': float(abs(rb))})
        # off-diagonal zeros / padding
        cnt += 1
        Z = T.copy(); Z[0, 0] = Z[1, 1] = 0; Z[2, 2] -= 1
        if np.max(np.abs(Z)) > 0:
            bad({'class': 'JonesFresnel', 'clause': 'structure', 'n1': n1, 'n2': n2, 'aoi': th})
    # polarizers
    pol = [(J.JonesPolarizerH, 'H', 'V'), (J.JonesPolarizerV, 'V', 'H'), (J.JonesPolarizerL45, 'L+45', 'L-45'),
           (J.JonesPolarizerL135, 'L-45', 'L+45'), (J.JonesPolarizerRCP, 'RCP', 'LCP'), (J.JonesPolarizerLCP, 'LCP', 'RCP')]
    for cls, nm, orth in pol:
        M = jm(cls())
        e = state_vec(create_polarization(nm)); f = state_vec(create_polarization(orth))
        B = M[:2, :2]
        cnt += 4
        if np.max(np.abs(B @ B - B)) > tol:
            bad({'class': cls.__name__, 'clause': 'idempotent'})
        if np.max(np.abs(B.conj().T - B)) > tol:
            bad({'class': cls.__name__, 'clause': 'hermitian'})
        if np.max(np.abs(M @ e - e)) > tol:
            bad({'class': cls.__name__, 'clause': 'passes-stated-state', 'state': nm})
        if np.max(np.abs(M @ f)) > tol:
            bad({'class': cls.__name__, 'clause': 'blocks-orthogonal-state', 'state': orth})
        if abs(M[2, 2] - 1) > 0 or np.max(np.abs(M[2, :2])) > 0 or np.max(np.abs(M[:2, 2])) > 0:
            bad({'class': cls.__name__, 'clause': 'structure'})
    # retarders / diattenuator
    for i in range(n):
        d = rng.uniform(-2 * math.pi, 2 * math.pi); th = rng.uniform(-math.pi, math.pi)
        if i % 7 == 0:
            th = 0.0
        M = jm(J.JonesLinearRetarder(d, th))
        cnt += 3
        if np.max(np.abs(M.conj().T @ M - np.eye(3))) > tol:
            bad({'class': 'JonesLinearRetarder', 'clause': 'unitary', 'retardance': d, 'theta': th})
        D = np.diag([np.exp(-1j * d / 2), np.exp(1j * d / 2), 1.0])
        S = rot(th) @ D @ rot(-th)
        if np.max(np.abs(M - S)) > tol:
            ij = np.unravel_index(np.argmax(np.abs(M - S)), (3, 3))
            bad({'class': 'JonesLinearRetarder', 'clause': 'rotation-covariance', 'retardance': d, 'theta': th,
                 'entry': [int(ij[0]), int(ij[1])]})
        ev = np.linalg.eigvals(M[:2, :2])
        ph = abs(np.angle(ev[0] / ev[1]))
        dd = abs(((d + math.pi) % (2 * math.pi)) - math.pi)
        if abs(ph - dd) > 1e-7:
            bad({'class': 'JonesLinearRetarder', 'clause': 'retardance', 'retardance': d, 'theta': th, 'measured': float(ph)})
        for cls, dv in ((J.JonesQuarterWaveRetarder, math.pi / 2), (J.JonesHalfWaveRetarder, math.pi)):
            cnt += 1
            Mq = jm(cls(th))
            Sq = rot(th) @ np.diag([np.exp(-1j * dv / 2), np.exp(1j * dv / 2), 1.0]) @ rot(-th)
            if np.max(np.abs(Mq - Sq)) > tol:
                bad({'class': cls.__name__, 'clause': 'rotation-covariance', 'theta': th})
        tmin, tmax = sorted([rng.uniform(0, 1), rng.uniform(0, 1)])
        if i % 5 == 0:
            tmin, tmax = 0.0, 1.0
        M = jm(J.JonesLinearDiattenuator(tmin, tmax, th))
        S = rot(th) @ np.diag([tmax, tmin, 1.0]) @ rot(-th)
        cnt += 1
        E = np.abs(M - S) > tol
        if E.any():
            entries = [[int(a), int(b)] for a, b in zip(*np.nonzero(E))]
            offdiag_only = all(e in ([0, 1], [1, 0]) for e in entries)
            bad({'class': 'JonesLinearDiattenuator', 'clause': 'rotation-covariance', 't_min': tmin, 't_max': tmax,
                 'theta': th, 'entry': [0, 1] if offdiag_only else entries[0], 'entries': entries,
                 'impl': float(M[0, 1].real), 'spec': float(S[0, 1].real)})
    return cnt, fails


def replay_trace(job):
    """uncoated lens from a stored prescription: worst intensity error / transversality error over the rays"""
    import lensgen
    from optiland.rays import PolarizationState
    o = lensgen.build(job['spec'])
    st = PolarizationState(True, *job['raw'])
    o.set_polarization(st)
    rays = o.trace(job['Hx'], job['Hy'], o.primary_wavelength, num_rays=job['num_rays'], distribution=job['distribution'])
    E1 = rays.get_output_field(rays._get_3d_electric_field(st))
    k = np.array([rays.L, rays.M, rays.N]).T
    ok = np.isfinite(rays.i) & np.all(np.isfinite(k), axis=1)
    return {'n': int(ok.sum()), 'max_int_err': float(np.max(np.abs(rays.i[ok] - 1.0))) if ok.any() else 0.0,
            'max_Edotk': float(np.max(np.abs(np.sum(E1[ok] * k[ok], axis=1)))) if ok.any() else 0.0}


def main():
    job = json.load(open(sys.argv[1]))
    sys.path.insert(0, job['tools'])
    rng = random.Random(job['seed'])
    res = {}
    if 'update' in job['what']:
        res['update'] = update_cases(rng, job['n_unit'])
    if 'field' in job['what']:
        res['field'] = field_cases(rng, job['n_unit'])
        res['named'] = named_cases()
        res['plates'] = wave_plates(rng, 12)
    if 'traces' in job['what']:
        res['traces'] = traces(job['seed'] + 1, job['n_lens'], job.get('n_mirror', 8), job.get('n_element', 6),
                               job.get('n_shared', 3), job.get('n_aperture', 3))
    if 'oracles' in job['what']:
        c, f = oracles(job['seed'] + 2, job['n_oracle'])
        res['oracles'] = {'count': c, 'fails': f}
    if 'replay_diattenuator' in job['what']:
        from optiland import jones as J
        M = jm(J.JonesLinearDiattenuator(job['t_min'], job['t_max'], job['theta']))
        S = rot(job['theta']) @ np.diag([job['t_max'], job['t_min'], 1.0]) @ rot(-job['theta'])
        res['replay_diattenuator'] = {'impl': cflat(M), 'spec': cflat(S)}
    if 'replay_trace' in job['what']:
        res['replay_trace'] = replay_trace(job)
    json.dump(res, open(sys.argv[2], 'w'))


if __name__ == '__main__':
    main()

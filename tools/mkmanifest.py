"""Regenerate MANIFEST.json from the per-property claim table below (kept by hand)."""
import json, os
HERE = os.path.dirname(os.path.dirname(os.path.abspath(__file__)))
props = [json.loads(l) for l in open(os.path.join(HERE, 'properties.jsonl'))]

# property -> (level text, level note, technique)   -- only properties whose ./check passes on the unchanged tree
CLAIMS = json.load(open(os.path.join(HERE, 'tools', 'claims.json')))
NOT_APPLICABLE = json.load(open(os.path.join(HERE, 'tools', 'not_applicable.json')))

man = {
    "version": 1,
    "setup_cmd": "./setup.sh",
    "hooks": {"guard": "OPTILAND_VERIF",
              "enable": "no source hooks: checks import /repo's working tree (PYTHONPATH=/repo) and observe through the public API or by monkey-patching inside the harness process; OPTILAND_VERIF=1 is exported for completeness",
              "baseline_off_cmd": "cd /repo && /venv/bin/python -m pytest -ra -q -p no:cacheprovider --timeout=900 --continue-on-collection-errors",
              "source_commits": [], "add_only": True},
    "engines": [{"name": "coq-proof", "path": "coq/", "serves_properties": sorted(CLAIMS),
                 "kind_free_text": "Rocq/Coq 8.16.1 development: coq/Gen regenerated from /repo by tools/py2coq.py on every run; coq/Model hand models; coq/Lemmas + coq/Props proofs; correspondence by vm_compute (PrimFloat) against the implementation"}],
    "checks": [], "not_applicable": [],
    "notes": "Every check: regenerate model from /repo -> make Props/<id>.vo -> Print Assumptions allow-list -> kernel and system correspondence -> search for a failing input when an obligation breaks -> known findings (known_findings.json, known_findings.d/)."}
for p in props:
    pid = p['id']
    if pid in CLAIMS:
        c = CLAIMS[pid]
        man['checks'].append({
            "property_id": pid, "quick_cmd": f"./check {pid} --tier quick", "thorough_cmd": f"./check {pid} --tier thorough",
            "evidence_file": f"evidence/{pid}.json", "replay_cmd_template": f"./check {pid} --replay {{path}}",
            "engine": "coq-proof",
            "level_claimed": {"category": "proof", "text": c['text'], "design_ref": f"DESIGN.md §8 {pid}"},
            "level_note": c['note'], "technique": c.get('technique', "machine-checked proof in Rocq (Coq) over a model regenerated from source, tied by differential correspondence")})
    else:
        man['not_applicable'].append({"property_id": pid, "reason": NOT_APPLICABLE.get(pid, "check not finished in this revision; the technique applies (DESIGN.md §8) but no passing check is registered yet")})
json.dump(man, open(os.path.join(HERE, 'MANIFEST.json'), 'w'), indent=1)
print('claimed', sorted(CLAIMS))

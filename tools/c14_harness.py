"""C14 harness: executed in a subprocess with PYTHONPATH=<repo> (vlib.run_python).
Runs the REAL optiland optimisation code on the scenarios of the job file and writes
plain observations (no verdicts) as JSON.  argv: job.json out.json

modes (job['mode']):
  handle : variables as handles - bounds, update/value sequences, independent raw reads of the lens
  merit  : Operand.value/fun, fun_array, sum_squared, OptimizerGeneric._fun
  kern   : identity scale/inverse_scale methods called directly (batched kernel correspondence)
  multi  : one problem over several optics (variables interleaved, pickups and solves per optic), per-optic observations
  opt    : optimise / undo sequences through the five front ends with every parent-process
           _fun call logged
"""
import json
import math
import sys
import warnings

import numpy as np

warnings.simplefilter('ignore')
np.seterr(all='ignore')

LOG = []          # (x, f) of every _fun call made in THIS process (workers have their own copy)


def _imports():
    global optic, om, Variable, operand_registry, IdealMaterial, CompensatorOptimizer
    from optiland import optic
    from optiland.optimization import optimization as om
    from optiland.optimization.variable import Variable
    from optiland.optimization.operand import operand_registry
    from optiland.materials import IdealMaterial
    from optiland.tolerancing.compensator import CompensatorOptimizer
    if 'verif_const' not in operand_registry:
        operand_registry.register('verif_const', _const_operand)


def _const_operand(value):
    return value


def fnum(x):
    """JSON-safe exact float"""
    if x is None:
        return None
    x = float(np.ravel(np.asarray(x, dtype=float))[0])
    return x.hex()


def build(spec):
    """spec['route']: 'direct' (default) | 'reuse' (an Optic that held a DIFFERENT lens, emptied with reset(), filled
    again) | 'roundtrip' (to_dict -> Optic.from_dict).  Pickups are added after the route."""
    route = spec.get('route', 'direct')
    o = None
    if route == 'reuse':
        o = optic.Optic()
        o.add_surface(index=0, radius=np.inf, thickness=np.inf)
        o.add_surface(index=1, radius=33.0, thickness=4.0, material=IdealMaterial(n=1.7, k=0), is_stop=True)
        o.add_surface(index=2, radius=-41.0, thickness=30.0)
        o.add_surface(index=3)
        o.set_aperture('EPD', 5.0)
        o.set_field_type('angle')
        o.add_field(y=0.0)
        o.add_wavelength(0.6, is_primary=True)
        try:
            o.paraxial.f2()
        except Exception:      # noqa
            pass
        o.reset()
    o = _fill(spec, o)
    if route == 'roundtrip':
        o = optic.Optic.from_dict(o.to_dict())
    for (src, attr, tgt, sc, off) in spec.get('pickups', []):
        o.pickups.add(src, attr, tgt, scale=sc, offset=off)
    o.update()
    return o


def _fill(spec, o=None):
    o = optic.Optic() if o is None else o
    o.add_surface(index=0, radius=np.inf, thickness=np.inf)
    for i, s in enumerate(spec['surfs']):
        kw = dict(index=i + 1, radius=s.get('radius', np.inf) if s.get('radius') is not None else np.inf,
                  conic=s.get('conic', 0.0), thickness=s.get('thickness', 0.0), is_stop=bool(s.get('stop')))
        n = s.get('n')
        kw['material'] = 'mirror' if s.get('mirror') else (IdealMaterial(n=n, k=0) if n else 'air')
        st = s.get('type', 'standard')
        kw['surface_type'] = st
        if st != 'standard':
            kw['coefficients'] = s['coefficients']
        if st == 'chebyshev':
            kw['norm_x'] = s.get('norm', 25.0)
            kw['norm_y'] = s.get('norm', 25.0)
        for k in ('rx', 'ry', 'dx', 'dy'):
            if s.get(k):
                kw[k] = s[k]
        o.add_surface(**kw)
    o.add_surface(index=len(spec['surfs']) + 1)
    o.set_aperture('EPD', spec.get('epd', 8.0))
    o.set_field_type('angle')
    for f in spec.get('fields', [0.0, 2.0]):
        o.add_field(y=f)
    for j, w in enumerate(spec.get('wl', [0.55])):
        o.add_wavelength(w, is_primary=(j == 0))
    return o


def var_kwargs(vs):
    kw = dict(surface_number=vs['surf'])
    t = vs['type']
    if t == 'asphere_coeff':
        kw['coeff_number'] = vs['a']
    elif t in ('tilt', 'decenter'):
        kw['axis'] = 'xy'[vs['a']]
    elif t in ('polynomial_coeff', 'chebyshev_coeff'):
        kw['coeff_index'] = (vs['a'], vs['b'])
    elif t == 'index':
        kw['wavelength'] = vs.get('wavelength', 0.55)
    return kw


def raw_read(o, c):
    """independent read of a lens parameter (not through the Variable classes)"""
    t, k, a, b = c['type'], c['surf'], c.get('a', 0), c.get('b', 0)
    surf = o.surface_group.surfaces[k]
    g = surf.geometry
    if t == 'radius':
        return float(np.ravel(g.radius)[0])
    if t == 'conic':
        return float(np.ravel(g.k)[0])
    if t == 'thickness':
        nxt = o.surface_group.surfaces[k + 1].geometry
        return float(np.ravel(nxt.cs.z)[0]) - float(np.ravel(g.cs.z)[0])
    if t == 'index':
        return float(np.ravel(surf.material_post.n(c.get('wavelength', 0.55)))[0])
    if t == 'asphere_coeff':
        return float(g.c[a])
    if t == 'tilt':
        return float(np.ravel(g.cs.rx if a == 0 else g.cs.ry)[0])
    if t == 'decenter':
        return float(np.ravel(g.cs.x if a == 0 else g.cs.y)[0])
    if t in ('polynomial_coeff', 'chebyshev_coeff'):
        cc = np.asarray(g.c)
        if a < cc.shape[0] and b < cc.shape[1]:
            return float(cc[a][b])
        return 0.0
    raise ValueError(t)


def add_vars(problem, o, vspecs):
    for vs in vspecs:
        problem.add_variable(o, vs['type'], min_val=vs.get('min'), max_val=vs.get('max'),
                             apply_scaling=vs.get('scaled', True), **var_kwargs(vs))


def add_ops(problem, o, ospecs):
    for os_ in ospecs:
        data = dict(os_.get('data', {}))
        if os_['type'] != 'verif_const':
            data['optic'] = o
        else:
            data['value'] = float.fromhex(data['value']) if isinstance(data['value'], str) else data['value']
        problem.add_operand(os_['type'], target=os_['target'], weight=os_['weight'], input_data=data)


def bounds_of(problem):
    out = []
    for v in problem.variables:
        b = v.bounds
        out.append([fnum(b[0]), fnum(b[1])])
    return out


def values_of(problem):
    return [fnum(v.value) for v in problem.variables]


# ---------------------------------------------------------------- handle
def run_handle(case):
    o = build(case['lens'])
    p = om.OptimizationProblem()
    add_vars(p, o, case['vars'])
    coords = case['coords']
    out = {'raw0': [fnum(raw_read(o, c)) for c in coords], 'values0': values_of(p), 'bounds': bounds_of(p),
           'steps': []}
    for (i, x) in case['ops']:
        p.variables[i].update(float.fromhex(x))
        out['steps'].append({'values': values_of(p), 'raw': [fnum(raw_read(o, c)) for c in coords]})
    # the get_value kernels' opaque inputs, for the kernel-level correspondence of thickness/index
    kin = []
    for v, vs in zip(p.variables, case['vars']):
        if vs['type'] == 'thickness':
            kin.append({'kernel': 'thickness_get_value', 'call': fnum(v.variable._surfaces.get_thickness(vs['surf'])[0]),
                        'scaled': bool(vs.get('scaled', True)), 'ret': fnum(v.variable.get_value())})
        elif vs['type'] == 'index':
            kin.append({'kernel': 'index_get_value', 'call': [fnum(t) for t in np.ravel(o.n(vs.get('wavelength', 0.55)))],
                        'surf': vs['surf'], 'scaled': bool(vs.get('scaled', True)), 'ret': fnum(v.variable.get_value())})
    out['kin'] = kin
    return out


# ---------------------------------------------------------------- merit
def run_merit(case):
    o = build(case['lens'])
    p = om.OptimizationProblem()
    add_vars(p, o, case['vars'])
    add_ops(p, o, case['ops'])
    vals = [op.value for op in p.operands]
    out = {'values': [fnum(v) for v in vals],
           'deltas': [fnum(op.delta()) for op in p.operands],
           'funs': [fnum(op.fun()) for op in p.operands],
           'fun_array': [fnum(v) for v in p.fun_array()],
           'sum_squared': fnum(p.sum_squared()),
           'rss': fnum(p.rss())}
    opt = om.OptimizerGeneric(p)
    x = [v.value for v in p.variables]
    out['_fun'] = fnum(opt._fun(x))
    out['values_after'] = [fnum(op.value) for op in p.operands]
    return out


# ---------------------------------------------------------------- opt
class _Log:
    def _fun(self, x):
        r = super()._fun(x)
        LOG.append(([float(v) for v in np.ravel(x)], float(r)))
        return r


def _classes():
    class LGeneric(_Log, om.OptimizerGeneric):
        pass

    class LLeastSquares(_Log, om.LeastSquares):
        pass

    class LDualAnnealing(_Log, om.DualAnnealing):
        pass

    class LDifferentialEvolution(_Log, om.DifferentialEvolution):
        pass
    return {'generic': LGeneric, 'least_squares': LLeastSquares, 'dual_annealing': LDualAnnealing,
            'differential_evolution': LDifferentialEvolution}


# module-level (picklable by reference for worker processes) versions
def _install_classes():
    g = globals()
    for k, c in _classes().items():
        c.__name__ = c.__qualname__ = 'L_' + k
        c.__module__ = __name__
        g['L_' + k] = c


def snapshot(o, p, coords):
    return {'values': values_of(p), 'raw': [fnum(raw_read(o, c)) for c in coords],
            'merit': fnum(p.sum_squared())}


def run_opt(case):
    np.random.seed(case.get('np_seed', 0))
    o = build(case['lens'])
    fe = case['frontend']
    if fe.startswith('compensator'):
        p = CompensatorOptimizer(method=fe.split(':')[1], tol=case.get('tol', 1e-5))
        p._optimizer_map = {'generic': globals()['L_generic'], 'least_squares': globals()['L_least_squares']}
    else:
        p = om.OptimizationProblem()
    add_vars(p, o, case['vars'])
    add_ops(p, o, case['ops'])
    coords = case['coords']
    tf = case.get('targets_from')
    if tf is not None:
        # calibrated scenario: the operand targets are the operand values at the variable vector `tf`
        # (so the unconstrained optimum is exactly there); the lens is then put back to its start
        x_start = [v.value for v in p.variables]
        for v, x in zip(p.variables, tf):
            v.update(float.fromhex(x))
        p.update_optics()
        for op in p.operands:
            op.target = float(np.ravel(op.value)[0])
        for v, x in zip(p.variables, x_start):
            v.update(x)
        p.update_optics()
    if case.get('preopt'):
        # start from an already good lens: a plain local optimisation first (not part of the observed run)
        om.OptimizerGeneric(p).optimize(maxiter=int(case['preopt']), disp=False, tol=1e-9)
    opt = None
    if not fe.startswith('compensator'):
        opt = globals()['L_' + fe](p)
    out = {'bounds': bounds_of(p), 'start': snapshot(o, p, coords), 'steps': []}
    for step in case['steps']:
        rec = {'step': step, 'before': snapshot(o, p, coords)}
        del LOG[:]
        try:
            if step == 'opt':
                if opt is None:
                    res = p.run()
                else:
                    res = opt.optimize(**case.get('kwargs', {}))
                rec['x'] = [fnum(v) for v in np.ravel(res.x)]
                rec['fun'] = fnum(np.ravel(res.fun)[0])
                rec['nfun_shape'] = int(np.size(res.fun))
            elif step == 'undo':
                opt.undo()
            rec['stack'] = len(opt._x) if opt is not None else None
        except Exception as e:      # noqa
            rec['error'] = [type(e).__name__, str(e)[:160]]
            rec['stack'] = len(opt._x) if opt is not None else None
        rec['log'] = [[[float(v).hex() for v in x], float(f).hex()] for (x, f) in LOG]
        rec['after'] = snapshot(o, p, coords)
        out['steps'].append(rec)
    return out


# ---------------------------------------------------------------- multi-optic problems
def _solve_residual(o, solve):
    if not solve:
        return None
    ya, _ = o.paraxial.marginal_ray()
    return float(np.ravel(ya[solve[0]])[0]) - float(solve[1])


def _pickup_residuals(o, lens):
    out = []
    for (src, attr, tgt, sc, off) in lens.get('pickups', []):
        a = raw_read(o, {'type': attr, 'surf': src})
        b = raw_read(o, {'type': attr, 'surf': tgt})
        out.append(b - (sc * a + off))
    return out


def multi_snapshot(optics, lenses, p, coords):
    return {'values': values_of(p),
            'raw': [fnum(raw_read(optics[c['optic']], c)) for c in coords],
            'pickup_res': [[fnum(r) for r in _pickup_residuals(o, l)] for o, l in zip(optics, lenses)],
            'solve_res': [fnum(_solve_residual(o, l.get('solve'))) for o, l in zip(optics, lenses)],
            'merit': fnum(p.sum_squared())}


def run_multi(case):
    """one problem spanning several optics; variables in the given (interleaved, repeating) order"""
    np.random.seed(case.get('np_seed', 0))
    lenses = case['lenses']
    optics = []
    for l in lenses:
        o = build(l)
        if l.get('solve'):
            o.solves.add('marginal_ray_height', l['solve'][0], l['solve'][1])
            o.update()
        optics.append(o)
    fe = case['frontend']
    if fe.startswith('compensator'):
        p = CompensatorOptimizer(method=fe.split(':')[1], tol=case.get('tol', 1e-5))
        p._optimizer_map = {'generic': globals()['L_generic'], 'least_squares': globals()['L_least_squares']}
    else:
        p = om.OptimizationProblem()
    for vs in case['vars']:
        p.add_variable(optics[vs['optic']], vs['type'], min_val=vs.get('min'), max_val=vs.get('max'),
                       apply_scaling=vs.get('scaled', True), **var_kwargs(vs))
    for os_ in case['ops']:
        data = dict(os_.get('data', {}))
        data['optic'] = optics[os_['optic']]
        p.add_operand(os_['type'], target=os_['target'], weight=os_['weight'], input_data=data)
    coords = case['coords']
    # how often does ONE call of update_optics() update each optic?  (instance-level counters, removed afterwards)
    counts = [0] * len(optics)
    for i, o in enumerate(optics):
        def wrapped(i=i, orig=o.update):
            counts[i] += 1
            return orig()
        o.update = wrapped
    p.update_optics()
    for o in optics:
        del o.update
    opt = None
    if not fe.startswith('compensator'):
        opt = globals()['L_' + fe](p)
    out = {'bounds': bounds_of(p), 'update_counts': counts, 'start': multi_snapshot(optics, lenses, p, coords), 'steps': []}
    for step in case['steps']:
        rec = {'step': step, 'before': multi_snapshot(optics, lenses, p, coords)}
        del LOG[:]
        try:
            if step == 'opt':
                res = p.run() if opt is None else opt.optimize(**case.get('kwargs', {}))
                rec['x'] = [fnum(v) for v in np.ravel(res.x)]
                rec['fun'] = fnum(np.ravel(res.fun)[0])
            elif step == 'undo':
                opt.undo()
            rec['stack'] = len(opt._x) if opt is not None else None
        except Exception as e:      # noqa
            rec['error'] = [type(e).__name__, str(e)[:160]]
            rec['stack'] = len(opt._x) if opt is not None else None
        rec['log'] = [[[float(v).hex() for v in x], float(f).hex()] for (x, f) in LOG]
        rec['after'] = multi_snapshot(optics, lenses, p, coords)
        out['steps'].append(rec)
    return out


def run_kern(case):
    """call one real method (scale / inverse_scale of a behaviour class) on a bare stub"""
    import importlib
    import types
    mod = importlib.import_module(case['file'][:-3].replace('/', '.'))
    fn = getattr(getattr(mod, case['cls']), case['func'])
    return [fnum(fn(types.SimpleNamespace(), float.fromhex(x))) for x in case['xs']]


def main():
    job = json.load(open(sys.argv[1]))
    _imports()
    _install_classes()
    fn = {'handle': run_handle, 'merit': run_merit, 'opt': run_opt, 'kern': run_kern, 'multi': run_multi}[job['mode']]
    res = []
    for case in job['cases']:
        try:
            res.append({'ok': fn(case)})
        except Exception as e:      # noqa
            import traceback
            res.append({'err': type(e).__name__, 'msg': str(e)[:200], 'tb': traceback.format_exc()[-600:]})
    json.dump(res, open(sys.argv[2], 'w'))


if __name__ == '__main__':
    main()
else:
    # imported by a worker process (multiprocessing spawn/forkserver re-imports the main module)
    try:
        _imports()
        _install_classes()
    except Exception:      # noqa
        pass

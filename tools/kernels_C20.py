"""C20 kernels: the arithmetic / integer / decision code of the Zemax importer that py2coq translates.
`data` is the token list of one line; for these kernels its entries are already the numbers Python's
float()/int() return for the tokens (the token table of the hand model carries the same values).
AbbeMaterial.n (the model glass) is translated by the C18 kernels (abbe_n) and not repeated here."""
ZH = 'optiland/fileio/zemax_handler.py'

MODULES = {
    'Zemax': [
        # CURV: radius = 1 / c, ZeroDivisionError -> inf
        dict(name='zmx_radius', file=ZH, cls='ZemaxFileReader', func='_read_radius',
             types={'data': 'list'}, outputs=['self._current_surf_data.K__radius']),
        # CONI
        dict(name='zmx_conic', file=ZH, cls='ZemaxFileReader', func='_read_conic',
             types={'data': 'list'}, outputs=['self._current_surf_data.K__conic']),
        # FTYP: field type / counts / flags from the integer tokens
        dict(name='zmx_config', file=ZH, cls='ZemaxFileReader', func='_read_config_data',
             types={'data': 'intlist'},
             outputs=['self.data.K__fields.K__num_fields', 'self.data.K__fields.K__type',
                      'self.data.K__wavelengths.K__num_wavelengths',
                      'self.data.K__fields.K__object_space_telecentric',
                      'self.data.K__fields.K__afocal_image_space']),
        # PWAV
        dict(name='zmx_primary', file=ZH, cls='ZemaxFileReader', func='_read_primary_wave',
             types={'data': 'intlist'}, outputs=['self.data.K__wavelengths.K__primary_index']),
        # WAVM: keep the first num_wavelengths values
        dict(name='zmx_wavelength', file=ZH, cls='ZemaxFileReader', func='_read_wavelength',
             types={'data': 'list', 'self.data.K__wavelengths.K__num_wavelengths': 'int',
                    'self.data.K__wavelengths.K__data': 'list'},
             outputs=['self.data.K__wavelengths.K__data']),
        # XFLN / YFLN: the first num_fields entries
        dict(name='zmx_xfields', file=ZH, cls='ZemaxFileReader', func='_read_x_fields',
             types={'data': 'list', 'self.data.K__fields.K__num_fields': 'int'},
             outputs=['self.data.K__fields.K__x']),
        dict(name='zmx_yfields', file=ZH, cls='ZemaxFileReader', func='_read_y_fields',
             types={'data': 'list', 'self.data.K__fields.K__num_fields': 'int'},
             outputs=['self.data.K__fields.K__y']),
    ],
}

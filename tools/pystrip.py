"""Print python sources without docstrings (reading aid)."""
import ast,sys
def strip(path):
    src=open(path).read()
    t=ast.parse(src)
    for n in ast.walk(t):
        if isinstance(n,(ast.FunctionDef,ast.ClassDef,ast.Module)):
            if n.body and isinstance(n.body[0],ast.Expr) and isinstance(getattr(n.body[0],'value',None),ast.Constant) and isinstance(n.body[0].value.value,str):
                n.body=n.body[1:] or [ast.Pass()]
    print('#####',path); print(ast.unparse(t))
for p in sys.argv[1:]: strip(p)

"""C10 kernels: the arithmetic of optiland/zernike.py that py2coq translates.

The three `_generate_indices` methods (tuple lists, sorted(zip(..))) and `terms`/`poly`
(try/except IndexError loop) are hand-modelled in coq/Model/M_C10.v and tied by exhaustive /
seeded correspondence (tools/props/C10.py).
"""
ZK = 'optiland/zernike.py'
_NM = {'n': 'int', 'm': 'int'}

MODULES = {
    'Zernike': [
        dict(name='zk_norm_std', file=ZK, cls='ZernikeStandard', func='_norm_constant', types=_NM),
        dict(name='zk_norm_noll', file=ZK, cls='ZernikeNoll', func='_norm_constant', types=_NM),
        dict(name='zk_norm_fringe', file=ZK, cls='ZernikeFringe', func='_norm_constant', types=_NM),
        dict(name='zk_azimuthal', file=ZK, cls='ZernikeStandard', func='_azimuthal_term', types={'m': 'int'}),
        dict(name='zk_radial', file=ZK, cls='ZernikeStandard', func='_radial_term', types=_NM),
        dict(name='zk_term_std', file=ZK, cls='ZernikeStandard', func='get_term', types=_NM,
             calls={'self._norm_constant': 'zk_norm_std', 'self._radial_term': 'zk_radial',
                    'self._azimuthal_term': 'zk_azimuthal'}),
        dict(name='zk_term_noll', file=ZK, cls='ZernikeNoll', src_cls='ZernikeStandard', func='get_term', types=_NM,
             calls={'self._norm_constant': 'zk_norm_noll', 'self._radial_term': 'zk_radial',
                    'self._azimuthal_term': 'zk_azimuthal'}),
        dict(name='zk_term_fringe', file=ZK, cls='ZernikeFringe', src_cls='ZernikeStandard', func='get_term',
             types=_NM,
             calls={'self._norm_constant': 'zk_norm_fringe', 'self._radial_term': 'zk_radial',
                    'self._azimuthal_term': 'zk_azimuthal'}),
    ],
}
MODULE_DEPS = {}

#!/venv/bin/python
"""Confirm a seeded change and run the registered check(s) against it, in scratch copies only.

usage: seedtest.py <seeded/<id> dir> [--skip-suite] [--tier quick|thorough] [--props C02,C13]

Steps (nothing touches /repo or /verif's build):
  1. copy /repo (without .git) to a scratch dir, run the demo there -> must PASS (exit 0);
  2. apply patch.diff, run the demo -> must FAIL (exit != 0);
  3. run the repository test suite on the mutated copy -> failing set must equal the unmutated one
     (known failures of the repaired tree, none of them in the 335-test baseline: 6 in tests/test_aberrations.py
     after the colour-term fix, tests/test_operand.py::TestRayOperand::test_opd_diff_on_axis after the
     cancellation-free conic intersection);
  4. copy /verif (without .git/build output that is not needed) and run ./check <prop> with
     VERIF_REPO pointing at the mutated copy; record exit code and the VIOLATION line.
Writes <dir>/result.json.
"""
import argparse
import json
import os
import re
import shutil
import subprocess
import sys
import time

VERIF = os.path.dirname(os.path.dirname(os.path.abspath(__file__)))
BASE_FAIL = 6


def sh(cmd, cwd=None, env=None, timeout=3600):
    e = dict(os.environ)
    if env:
        e.update(env)
    p = subprocess.run(cmd, shell=True, cwd=cwd, env=e, stdout=subprocess.PIPE, stderr=subprocess.STDOUT, text=True, timeout=timeout)
    return p.returncode, p.stdout


def main():
    ap = argparse.ArgumentParser()
    ap.add_argument('dir')
    ap.add_argument('--skip-suite', action='store_true')
    ap.add_argument('--tier', default='quick')
    ap.add_argument('--props', default=None)
    a = ap.parse_args()
    d = os.path.abspath(a.dir)
    meta = json.load(open(os.path.join(d, 'meta.json')))
    props = a.props.split(',') if a.props else [meta['property']]
    sid = os.path.basename(d)
    work = f'/tmp/st_{sid}_{os.getpid()}'
    shutil.rmtree(work, ignore_errors=True)
    os.makedirs(work)
    res = {'id': sid, 'property': meta['property'], 'at': time.strftime('%Y-%m-%dT%H:%M:%SZ', time.gmtime())}
    try:
        repo = os.path.join(work, 'repo')
        sh(f'rsync -a --exclude .git /repo/ {repo}/')
        demo = os.path.join(d, meta.get('demo', 'demo.py'))
        env = {'PYTHONPATH': repo, 'MPLBACKEND': 'Agg', 'PYTHONHASHSEED': '0'}
        rc0, out0 = sh(f'/venv/bin/python {demo}', cwd=repo, env=env, timeout=1200)
        res['demo_clean_exit'] = rc0
        res['demo_clean_tail'] = out0[-300:]
        rc, out = sh(f'patch -p1 -i {os.path.join(d, "patch.diff")}', cwd=repo)
        res['patch_applied'] = rc == 0
        if rc != 0:
            res['patch_log'] = out[-500:]
        rc1, out1 = sh(f'/venv/bin/python {demo}', cwd=repo, env=env, timeout=1200)
        res['demo_mutated_exit'] = rc1
        res['demo_mutated_tail'] = out1[-400:]
        if not a.skip_suite:
            rc, out = sh('/venv/bin/python -m pytest -q -p no:cacheprovider --timeout=900 --continue-on-collection-errors -x --deselect tests/test_aberrations.py --deselect tests/test_operand.py::TestRayOperand::test_opd_diff_on_axis 2>&1 | tail -5',
                         cwd=repo, env=env, timeout=2400)
            res['suite_tail'] = out[-300:]
            m = re.search(r'(\d+) passed', out)
            res['suite_passed'] = int(m.group(1)) if m else None
            last = [l for l in out.strip().splitlines() if ' passed' in l or ' failed' in l or ' error' in l][-1:] or ['']
            res['suite_failed'] = bool(re.search(r'\d+ failed|\d+ errors?\b', last[0]))   # the pytest summary line only (warnings may contain the word 'error')
        # checks
        vcopy = os.path.join(work, 'verif')
        sh(f'rsync -a --exclude .git --exclude replays --exclude "coq/Cases/*" {VERIF}/ {vcopy}/')
        res['checks'] = {}
        for p in props:
            t0 = time.time()
            rc, out = sh(f'./check {p} --tier {a.tier}', cwd=vcopy, env={'VERIF_REPO': repo}, timeout=3600)
            line = next((ln for ln in out.split('\n') if ln.startswith('VIOLATION')), None)
            rep = None
            if line:
                m = re.search(r'replay=(\S+)', line)
                if m and os.path.exists(os.path.join(vcopy, m.group(1))):
                    rep = json.load(open(os.path.join(vcopy, m.group(1))))
            res['checks'][p] = {'exit': rc, 'violation_line': line, 'wall_s': round(time.time() - t0, 1),
                                'broken': [b.get('kind') + ':' + str(b.get('theorem') or b.get('kernel') or b.get('check') or '')
                                           for b in (rep or {}).get('broken_obligations', [])][:6],
                                'witness_excerpt': json.dumps((rep or {}).get('witness'), default=str)[:600] if rep else None,
                                'tail': out[-400:] if not line else None}
        res['caught'] = any(c['exit'] == 1 and c['violation_line'] for c in res['checks'].values())
        res['confirmed'] = (res['demo_clean_exit'] == 0 and res['patch_applied'] and res['demo_mutated_exit'] != 0
                            and (a.skip_suite or not res.get('suite_failed')))
    finally:
        shutil.rmtree(work, ignore_errors=True)
    json.dump(res, open(os.path.join(d, 'result.json'), 'w'), indent=1)
    print(json.dumps({k: res.get(k) for k in ('id', 'property', 'confirmed', 'caught')}), {p: (c['exit'], c['violation_line']) for p, c in res.get('checks', {}).items()})


if __name__ == '__main__':
    main()

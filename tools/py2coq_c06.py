"""py2coq extension for property C06 (optiland/wavefront.py).  Used through `kclass=C06Kernel`.

On top of the base translator:
  a[-1, :]     on a per-ray number: the recorded (n_surfaces, n_rays) array of SurfaceGroup is read at
               its LAST row; under the per-ray scalar semantics the kernel input IS that last-row
               element (the harness feeds a two-row array whose first row is a decoy, so a read of any
               other row is caught by the correspondence run)
  a[-1, :].size   the number of rays in the batch: an explicit integer input `<a>.size` (the harness passes
               the real batch size, so `if ....size != 1: raise` keeps its meaning)
  x=None       a parameter declared statically None is not an input (NaN stands for its dead value)
  vx, vy = f(..)  a call listed in the spec's `opaque_pairs` returns a pair of number inputs  f().e0, f().e1
  field        a parameter declared kind 'tuple2' is the pair of number inputs field.e0, field.e1
Everything else falls through to the base class (and fails closed there)."""
import ast

from py2coq import Kernel, Unsupported, V


def _is_minus_one(e):
    return (isinstance(e, ast.UnaryOp) and isinstance(e.op, ast.USub) and isinstance(e.operand, ast.Constant)
            and e.operand.value == 1) or (isinstance(e, ast.Constant) and e.value == -1)


def _is_full_slice(e):
    return isinstance(e, ast.Slice) and e.lower is None and e.upper is None and e.step is None


class C06Kernel(Kernel):
    def subscript(self, node, env):
        sl = node.slice
        if isinstance(sl, ast.Tuple) and len(sl.elts) == 2 and _is_minus_one(sl.elts[0]) \
                and _is_full_slice(sl.elts[1]):
            base = self.expr(node.value, env)
            if base.kind == 'num':
                return base
            raise Unsupported('last-row read of ' + base.kind)
        return super().subscript(node, env)

    def expr(self, node, env):
        if isinstance(node, ast.Attribute) and node.attr == 'size' and isinstance(node.value, ast.Subscript):
            v = self.subscript(node.value, env)
            d = self.dotted_of(node.value.value)
            if v.kind == 'num' and d is not None:
                self.types[d + '.size'] = 'int'
                return self.get_input(d + '.size')
        return super().expr(node, env)

    def call(self, node, env):
        d = self.dotted_of(node.func)
        if d is not None and d in self.spec.get('opaque_pairs', ()):
            return V('tuple', items=[Kernel.get_input(self, d + '().e0'), Kernel.get_input(self, d + '().e1')])
        if d is not None and '.' in d:
            root, rest = d.split('.', 1)
            if root in env and env[root].kind == 'obj' and env[root].path != root:
                full = env[root].path + '.' + rest          # method of an aliased object: material.n(w)
                opaque = self.spec.get('opaque_calls', {})
                if full in opaque:
                    self.types.setdefault(full + '()', opaque[full])
                    return self.get_input(full + '()')
        return super().call(node, env)

    def get_input(self, dotted):
        if self.spec.get('static', {}).get(dotted) == 'none' and dotted in getattr(self, 'params', ()):
            # a parameter that is statically None only survives as the dead "old value" of an if-merge
            # (`if x is None: x = ...`); it is represented by NaN (any arithmetic use would poison the
            # result and be caught by the correspondence run) and is not an input of the kernel
            return V('num', 'nan_')
        if self.types.get(dotted) == 'tuple2':
            return V('tuple', items=[super().get_input(dotted + '.e0'), super().get_input(dotted + '.e1')])
        return super().get_input(dotted)

"""py2coq_c04: kernel class for the LAUNCH of the paraxial queries (Paraxial.marginal_ray, chief_ray ...).

These methods compute the launch (height, slope, start plane, wavelength) and end with
`return self._trace_generic(y, u, z, wavelength)`.  The trace itself is the hand model's `tg` (proved to be the
accumulated ABCD matrices); with `return_args_of=['self._trace_generic']` the kernel returns the ARGUMENTS of that
final call, i.e. the launch as the source computes it, so that the launch arithmetic is regenerated instead of
hand-copied."""
import ast
import py2coq
from py2coq import Unsupported


class LaunchKernel(py2coq.Kernel):
    def block(self, stmts, env, k):
        if stmts and isinstance(stmts[0], ast.Return) and isinstance(stmts[0].value, ast.Call):
            d = self.dotted_of(stmts[0].value.func)
            if d in self.spec.get('return_args_of', ()):
                if stmts[0].value.keywords:
                    raise Unsupported('launch call with keywords')
                new = ast.Return(value=ast.Tuple(elts=list(stmts[0].value.args), ctx=ast.Load()))
                ast.copy_location(new, stmts[0])
                ast.fix_missing_locations(new)
                stmts = [new] + list(stmts[1:])
        return super().block(stmts, env, k)

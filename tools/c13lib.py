"""C13 harness: the catalogue of non-editing calls, bit-exact canonical encoding of their results,
lens-state snapshots, random interleavings on one lens object, per-ray batch independence, and the
observation of the per-surface record state that the Coq state machine (Model/M_C13.v) predicts.

Everything here runs the REAL implementation (imported from VERIF_REPO); nothing is re-implemented.
An `op` is a JSON-able dict, so every witness can be replayed literally.
"""
import hashlib
import math
import warnings

import numpy as np

REC_FIELDS = ('y', 'u', 'x', 'z', 'L', 'M', 'N', 'intensity', 'aoi', 'opd')
GETTERS = ('x', 'y', 'z', 'L', 'M', 'N', 'opd', 'u', 'intensity')
PARAXIAL_QUERIES = ['f1', 'f2', 'F1', 'F2', 'P1', 'P2', 'N1', 'N2', 'EPL', 'EPD', 'XPL', 'XPD', 'FNO',
                    'magnification', 'invariant']
ABERRATION_QUERIES = ['third_order', 'seidels', 'TSC', 'SC', 'CC', 'TCC', 'TAC', 'AC', 'TPC', 'PC', 'DC',
                      'TAchC', 'LchC', 'TchC']
# calls that always end with a forward trace on the lens' own surfaces: their record getters belong to the result
FORWARD_TRACING = {'trace', 'trace_generic', 'paraxial_trace', 'marginal_ray', 'chief_ray'}


# ----------------------------------------------------------------------------------------------
# canonical, bit-exact encoding
# ----------------------------------------------------------------------------------------------
def canon(v, depth=0):
    if depth > 12:
        return '<deep>'
    if v is None or isinstance(v, (bool, str)):
        return v
    if isinstance(v, (int, np.integer)):
        return int(v)
    if isinstance(v, (float, np.floating)):
        return 'f:nan' if v != v else 'f:' + float(v).hex()
    if isinstance(v, (complex, np.complexfloating)):
        return ['c', float(v.real).hex(), float(v.imag).hex()]
    if isinstance(v, np.ndarray):
        if v.dtype == object:
            return ['ndo', list(v.shape), [canon(x, depth + 1) for x in v.ravel().tolist()]]
        a = np.ascontiguousarray(v)
        if a.dtype.kind in 'fc' and np.isnan(a).any():
            a = np.where(np.isnan(a), np.nan, a)      # NaN sign/payload bits are not part of the result
        head = [canon(x) for x in a.ravel()[:3].tolist()]
        return ['nd', a.dtype.str, list(a.shape), hashlib.sha1(a.tobytes()).hexdigest(), head]
    if isinstance(v, (list, tuple)):
        return [canon(x, depth + 1) for x in v]
    if isinstance(v, dict):
        return {str(k): canon(x, depth + 1) for k, x in sorted(v.items(), key=lambda kv: str(kv[0]))}
    return '<' + type(v).__name__ + '>'


def first_diff(a, b, path=''):
    """path of the first difference between two canonical values (None if equal)"""
    if type(a) != type(b):
        return path + f' type {type(a).__name__}/{type(b).__name__}'
    if isinstance(a, list):
        if len(a) != len(b):
            return path + f' len {len(a)}/{len(b)}'
        for i, (x, y) in enumerate(zip(a, b)):
            d = first_diff(x, y, f'{path}[{i}]')
            if d:
                return d
        return None
    if isinstance(a, dict):
        if sorted(a) != sorted(b):
            return path + ' keys ' + str(sorted(set(a) ^ set(b))[:4])
        for k in a:
            d = first_diff(a[k], b[k], f'{path}.{k}')
            if d:
                return d
        return None
    return None if a == b else f'{path}: {str(a)[:60]} != {str(b)[:60]}'


# ----------------------------------------------------------------------------------------------
# lens state: prescription / fields / wavelengths / aperture  (everything but the ray records)
# ----------------------------------------------------------------------------------------------
def _walk(o, seen, depth, skip_records):
    if depth > 9:
        return '<deep>'
    if o is None or isinstance(o, (bool, str, int, float, complex, np.generic, np.ndarray)):
        return canon(o)
    if isinstance(o, (list, tuple)):
        return [_walk(x, seen, depth + 1, skip_records) for x in o]
    if isinstance(o, dict):
        return {str(k): _walk(v, seen, depth + 1, skip_records) for k, v in sorted(o.items(), key=lambda kv: str(kv[0]))}
    if id(o) in seen:
        return '<ref ' + type(o).__name__ + '>'
    seen = seen | {id(o)}
    name = type(o).__name__
    if name in ('Optic', 'Paraxial', 'Aberrations', 'RayGenerator', 'SurfaceFactory', 'DataFrame', 'Generator'):
        return '<' + name + '>'
    d = getattr(o, '__dict__', None)
    if d is None:
        return '<' + name + '>'
    out = {'__class__': name}
    is_surface = hasattr(o, 'geometry') and hasattr(o, 'material_post')
    for k in sorted(d):
        if is_surface and skip_records and k in REC_FIELDS:
            continue
        if k.startswith('_') and name in ('Material', 'MaterialFile'):
            continue                    # lazily loaded catalogue data, not lens state
        out[k] = _walk(d[k], seen, depth + 1, skip_records)
    return out


def lens_state(optic):
    """deep snapshot of the lens: per-surface geometry/cs/materials/aperture/coating/flags/semi-aperture,
    fields, wavelengths, system aperture, field type, telecentricity, polarization, pickups, solves;
    the ray records are left out"""
    sg = optic.surface_group
    return {
        'surfaces': [_walk(s, frozenset(), 0, True) for s in sg.surfaces],
        'fields': _walk(optic.fields, frozenset(), 0, True),
        'wavelengths': _walk(optic.wavelengths, frozenset(), 0, True),
        'aperture': _walk(optic.aperture, frozenset(), 0, True),
        'field_type': optic.field_type,
        'telecentric': bool(optic.obj_space_telecentric),
        'polarization': _walk(optic.polarization, frozenset(), 0, True),
        'pickups': len(getattr(optic.pickups, 'pickups', []) or []),
        'solves': len(getattr(optic.solves, 'solves', []) or []),
    }


def lens_dict(optic):
    """the library's own serialisation (to_dict), canonical"""
    try:
        return canon(optic.to_dict())
    except Exception as e:   # noqa
        return '<to_dict raised ' + type(e).__name__ + '>'


def record_sizes(optic):
    """per surface: the sizes of the ten record arrays, in REC_FIELDS order (what Model/M_C13.v predicts)"""
    return [[int(np.size(getattr(s, f))) for f in REC_FIELDS] for s in optic.surface_group.surfaces]


def getters(optic):
    sg = optic.surface_group
    out = {}
    for g in GETTERS:
        try:
            out[g] = canon(getattr(sg, g))
        except Exception as e:  # noqa   (ragged records)
            out[g] = '<raised ' + type(e).__name__ + '>'
    return out


# ----------------------------------------------------------------------------------------------
# lenses: lensgen specs plus the variants the property quantifies over
# ----------------------------------------------------------------------------------------------
def build(spec):
    """lensgen.build / build_via + spec['c13'] = {
         'route': 'direct' | 'handbuilt' | 'reuse' | 'roundtrip'   (how the Optic object comes into being),
         'polarization': 'H'|'V'|'L+45'|'RCP'|'unpolarized'|None, 'fresnel': bool, 'aperture_array': bool,
         'pickups': [[source, attr, target, scale, offset] ...], 'solves': [[type, surface, value] ...]
             (added, then Optic.update() is called once),
         'pending_edits': [[setter name, args ...] ...]
             (setters called AFTER that update and NOT followed by update(): the lens carries pickups/solves that a
              re-application would act on; no read-only call may re-apply them)}
    Deterministic: the same spec always gives the same lens."""
    import contextlib
    import io
    import random
    import lensgen
    extra = spec.get('c13') or {}
    route = extra.get('route', 'direct')
    with contextlib.redirect_stdout(io.StringIO()), warnings.catch_warnings(), np.errstate(all='ignore'):
        warnings.simplefilter('ignore')                  # (the catalogue lookup prints, the reuse route divides by 0)
        if route != 'direct' and hasattr(lensgen, 'build_via'):
            o = lensgen.build_via(spec, route, random.Random(extra.get('route_seed', 1)))
        else:
            o = lensgen.build(spec)
    if extra.get('aperture_array'):
        # the system aperture value handed over as a 0-d ndarray (a value that came out of a NumPy computation)
        o.set_aperture(spec['aperture'][0], np.array(float(spec['aperture'][1])))
    if extra.get('fresnel'):
        o.surface_group.set_fresnel_coatings()
    if extra.get('polarization'):
        from optiland.rays.polarization_state import create_polarization
        o.set_polarization(create_polarization(extra['polarization']))
    for pk in extra.get('pickups', []):
        o.pickups.add(*pk)
    for sv in extra.get('solves', []):
        o.solves.add(*sv)
    if extra.get('pickups') or extra.get('solves'):
        o.update()
    for e in extra.get('pending_edits', []):
        getattr(o, e[0])(*e[1:])
    return o


def _aux_rng(spec):
    """a generator that depends on the spec only (the main stream of gen_spec is left untouched, so lenses that
    earlier checks relied on stay the same)"""
    import json
    import random
    return random.Random(hashlib.sha1(json.dumps(spec, sort_keys=True, default=str).encode()).hexdigest())


def add_routes_and_pending(spec):
    """decorate a generated spec (in place) with a construction route and, where the prescription allows it, with
    pickups / a solve and an edit that is still pending"""
    r = _aux_rng(spec)
    c = spec.setdefault('c13', {})
    if r.random() < 0.4:
        c['route'] = r.choice(['handbuilt', 'reuse', 'roundtrip'])
        c['route_seed'] = r.randrange(1000)
    surfs = spec['surfaces']
    plain = [i for i, s in enumerate(surfs) if s.get('type', 'standard') == 'standard' and 'conic' not in s
             and s.get('radius') not in (None, float('inf')) and s.get('material') != 'mirror']
    if r.random() < 0.3 and len(plain) >= 2 and not any(s.get('material') == 'mirror' for s in surfs) \
            and c.get('route') != 'roundtrip':
        i, j = sorted(r.sample(plain, 2))
        c['pickups'] = [[i + 1, 'radius', j + 1, -1.0, 0.0]]
        if r.random() < 0.5:
            c['solves'] = [['marginal_ray_height', len(surfs), 0.0]]
        c['pending_edits'] = [['set_radius', surfs[i]['radius'] * r.choice([0.9, 1.15]), i + 1]]
    return spec


# fixed corpus: lenses that carry pickups / solves and an edit the user has not yet followed by update()
def pending_specs():
    inf = float('inf')
    base = {'object_thickness': inf, 'aperture': ['EPD', 8.0], 'field_type': 'angle',
            'fields': [[0.0, 0.0, 0.0, 0.0], [4.0, 0.0, 0.0, 0.0]], 'wavelengths': [[0.5876, True]],
            'telecentric': False}
    s2 = [{'type': 'standard', 'radius': 50.0, 'thickness': 5.0, 'is_stop': True, 'material': ['ideal', 1.5168, 0.0]},
          {'type': 'standard', 'radius': -50.0, 'thickness': 45.0, 'material': 'air'}]
    s4 = [{'type': 'standard', 'radius': 40.0, 'thickness': 4.0, 'is_stop': True, 'material': ['glass', 'N-BK7', 'schott']},
          {'type': 'standard', 'radius': -60.0, 'thickness': 3.0, 'material': 'air'},
          {'type': 'standard', 'radius': 80.0, 'conic': -0.5, 'thickness': 4.0, 'material': ['ideal', 1.6, 0.0]},
          {'type': 'standard', 'radius': -80.0, 'conic': 0.0, 'thickness': 40.0, 'material': 'air'}]
    out = [
        dict(base, name='radius-pickup, set_radius pending', surfaces=[dict(x) for x in s2],
             c13={'pickups': [[1, 'radius', 2, -1.0, 0.0]], 'pending_edits': [['set_radius', 65.0, 1]]}),
        dict(base, name='image solve, set_radius pending', surfaces=[dict(x) for x in s2],
             c13={'solves': [['marginal_ray_height', 2, 0.0]], 'pending_edits': [['set_radius', 40.0, 1]]}),
        dict(base, name='conic+thickness pickups and solve, several edits pending', surfaces=[dict(x) for x in s4],
             c13={'pickups': [[3, 'conic', 4, 1.0, 0.0], [1, 'thickness', 3, 1.0, 0.0], [1, 'radius', 4, -2.0, 0.0]],
                  'solves': [['marginal_ray_height', 4, 0.0]],
                  'pending_edits': [['set_conic', -1.0, 3], ['set_thickness', 6.0, 1], ['set_radius', 45.0, 1]]}),
        dict(base, name='radius pickup on a rebuilt Optic (reuse), set_index pending', surfaces=[dict(x) for x in s2],
             c13={'route': 'reuse', 'route_seed': 3, 'pickups': [[1, 'radius', 2, -1.0, 0.0]],
                  'solves': [['marginal_ray_height', 2, 0.0]], 'pending_edits': [['set_index', 1.7, 1]]}),
    ]
    for s in out:
        s['variant'] = 'pending edit: ' + s['name']
    return out


def dispersive_specs():
    """fixed corpus of lenses with catalogue glasses (mixed-wavelength batches need dispersion)"""
    import lensgen
    out = [dict(s) for s in lensgen.corpus() if s.get('name') in ('cemented', 'tir-planoconvex')]
    for s in out:
        s['variant'] = 'dispersive: ' + s['name']
    return out


def is_dispersive(spec):
    return any(isinstance(s.get('material'), list) and s['material'][0] == 'glass' for s in spec['surfaces'])


def gen_spec(rng, variant=None, **kw):
    """variant: None (random), 'plain', 'vignetting', 'coated', 'polarized', 'newton'"""
    import lensgen
    variant = variant or rng.choice(['plain', 'vignetting', 'coated', 'polarized', 'newton', 'any'])
    if variant == 'newton':
        kw.setdefault('allow', ['standard', 'even_asphere', 'polynomial', 'plane'])
    elif variant in ('plain', 'vignetting', 'polarized', 'coated'):
        kw.setdefault('allow', ['plane', 'standard', 'conic'])
    spec = lensgen.gen_spec(rng, **kw)
    if variant == 'vignetting':
        maxf = rng.uniform(2.0, 8.0)
        nf = rng.choice([2, 3])
        spec['fields'] = [[maxf * j / (nf - 1), 0.0, (rng.uniform(0.05, 0.4) if j else 0.0),
                           (rng.uniform(0.05, 0.4) if j else 0.0)] for j in range(nf)]
    if variant == 'coated':
        for s in spec['surfaces']:
            if rng.random() < 0.6:
                s['coating'] = [rng.uniform(0.5, 1.0), rng.uniform(0.0, 0.4)]
    if variant == 'polarized':
        mode = rng.choice(['uncoated', 'simple', 'fresnel', 'fresnel'])
        for s in spec['surfaces']:
            s.pop('coating', None)
            if mode == 'simple' and rng.random() < 0.6:
                s['coating'] = [rng.uniform(0.5, 1.0), rng.uniform(0.0, 0.4)]
        spec['c13'] = {'polarization': rng.choice(['H', 'V', 'unpolarized', 'H', 'V', 'L+45', 'RCP']),
                       'fresnel': mode == 'fresnel', 'coatings': mode}
    # numeric settings are not always python floats: a 0-d ndarray aperture value is writable in place
    if rng.random() < 0.3:
        spec.setdefault('c13', {})['aperture_array'] = True
    # fields are not always entered in ascending order (a call that sorts the lens' own field list, or relies
    # on its order, must show up)
    if len(spec['fields']) > 1 and rng.random() < 0.6:
        f = list(spec['fields'])
        f = f[::-1] if rng.random() < 0.5 or len(f) == 2 else [f[1], f[-1], f[0]] + f[2:-1]
        spec['fields'] = f
        spec['fields_order'] = 'not ascending'
    spec['variant'] = variant
    add_routes_and_pending(spec)
    return spec


# ----------------------------------------------------------------------------------------------
# the calls
# ----------------------------------------------------------------------------------------------
def _make_dist(d):
    from optiland import distribution as D
    cls = {'hexapolar': D.HexagonalDistribution, 'uniform': D.UniformDistribution, 'line_x': D.LineXDistribution,
           'line_y': D.LineYDistribution, 'cross': D.CrossDistribution, 'ring': D.RingDistribution,
           'random': D.RandomDistribution}[d['cls']]
    obj = cls(seed=d['seed']) if d['cls'] == 'random' else cls()
    obj.generate_points(d['n'])
    return obj


def _arg(v):
    """JSON op argument -> (python value handed to the call, copy to compare with afterwards or None)"""
    if isinstance(v, dict) and 'array' in v:
        a = np.array(v['array'], dtype=v.get('dtype', 'float64'))
        return a, a.copy()
    if isinstance(v, dict) and 'list' in v:
        a = list(v['list'])
        return a, list(a)
    return v, None


def _same_arg(a, b):
    if isinstance(a, np.ndarray):
        return a.dtype == b.dtype and a.shape == b.shape and a.tobytes() == b.tobytes()
    return canon(a) == canon(b)


def _rays(r):
    return {k: canon(getattr(r, k)) for k in ('x', 'y', 'z', 'L', 'M', 'N', 'i', 'w', 'opd')}


def run_op(optic, op):
    """execute one call; returns dict(result=canonical value or {'raised':..}, caller=[names of caller-owned
    arguments that were modified], detail=...)"""
    import optiland.analysis as A
    from optiland import wavefront as W
    kind = op['op']
    caller_bad = []
    detail = {}
    with warnings.catch_warnings():
        warnings.simplefilter('ignore')
        old = np.seterr(all='ignore')
        try:
            if kind == 'trace':
                dist = op['dist']
                if isinstance(dist, dict):
                    dobj = _make_dist(dist)
                    keep = (dobj.x.copy(), dobj.y.copy())
                    r = optic.trace(op['Hx'], op['Hy'], op['w'], op.get('num_rays'), dobj)
                    if not (_same_arg(dobj.x, keep[0]) and _same_arg(dobj.y, keep[1])):
                        caller_bad.append('distribution')
                else:
                    r = optic.trace(op['Hx'], op['Hy'], op['w'], op['num_rays'], dist)
                res = {'rays': _rays(r)}
            elif kind == 'trace_generic':
                vals, keeps = {}, {}
                for k in ('Hx', 'Hy', 'Px', 'Py'):
                    vals[k], keeps[k] = _arg(op[k])
                r = optic.trace_generic(vals['Hx'], vals['Hy'], vals['Px'], vals['Py'], op['w'])
                for k in ('Hx', 'Hy', 'Px', 'Py'):
                    if keeps[k] is not None and not _same_arg(vals[k], keeps[k]):
                        caller_bad.append(k)
                        detail[k] = {'before': canon(keeps[k]), 'after': canon(vals[k]),
                                     'after_values': [float(x).hex() for x in np.ravel(vals[k])[:64]]}
                res = {'rays': _rays(r)}
            elif kind == 'paraxial':
                res = canon(getattr(optic.paraxial, op['q'])())
            elif kind in ('marginal_ray', 'chief_ray'):
                res = canon(getattr(optic.paraxial, kind)())
            elif kind == 'paraxial_trace':
                py, keep = _arg(op['Py'])
                optic.paraxial.trace(op['Hy'], py, op['w'])
                if keep is not None and not _same_arg(py, keep):
                    caller_bad.append('Py')
                res = None
            elif kind == 'aberration':
                res = canon(getattr(optic.aberrations, op['q'])())
            elif kind == 'n':
                res = canon(optic.n(op['w']))
            elif kind == 'info':
                res = {'total_track': canon(optic.total_track), 'positions': canon(optic.surface_group.positions),
                       'radii': canon(optic.surface_group.radii), 'conic': canon(optic.surface_group.conic),
                       'stop': optic.surface_group.stop_index}
            elif kind == 'wavefront':
                cls = op['cls']
                if cls == 'Wavefront':
                    o = W.Wavefront(optic, op.get('fields', 'all'), op.get('wavelengths', 'all'), op['num_rays'],
                                    op.get('dist', 'hexapolar'))
                    res = canon(o.data)
                elif cls == 'OPDFan':
                    o = W.OPDFan(optic, op.get('fields', 'all'), op.get('wavelengths', 'all'), op['num_rays'])
                    res = canon(o.data)
                elif cls == 'OPD':
                    o = W.OPD(optic, tuple(op['field']), op['w'], op['num_rays'])
                    res = {'data': canon(o.data), 'rms': canon(o.rms())}
                elif cls == 'ZernikeOPD':
                    o = W.ZernikeOPD(optic, tuple(op['field']), op['w'], op['num_rays'], op.get('ztype', 'fringe'),
                                     op.get('terms', 15))
                    res = {'data': canon(o.data), 'coeffs': canon(np.array(o.zernike.coeffs)
                                                                  if hasattr(o, 'zernike') else None)}
                else:
                    raise KeyError(cls)
            elif kind == 'psf':
                from optiland.psf import FFTPSF
                o = FFTPSF(optic, tuple(op['field']), op['w'], op['num_rays'], op['grid'])
                res = {'psf': canon(o.psf), 'strehl': canon(o.strehl_ratio())}
            elif kind == 'mtf':
                from optiland import mtf as Mt
                if op['cls'] == 'FFTMTF':
                    o = Mt.FFTMTF(optic, op.get('fields', 'all'), op.get('w', 'primary'), op['num_rays'], op['grid'])
                    res = {'mtf': canon(o.mtf), 'max_freq': canon(o.max_freq)}
                else:
                    o = Mt.GeometricMTF(optic, op.get('fields', 'all'), op.get('w', 'primary'), op['num_rays'],
                                        op.get('dist', 'uniform'), op.get('num_points', 32))
                    res = {'mtf': canon(o.mtf), 'freq': canon(o.freq)}
            elif kind == 'analysis':
                cls = op['cls']
                if cls == 'SpotDiagram':
                    o = A.SpotDiagram(optic, op.get('fields', 'all'), op.get('wavelengths', 'all'), op['num_rays'],
                                      op.get('dist', 'hexapolar'))
                    res = {'data': canon(o.data), 'rms': canon(o.rms_spot_radius()),
                           'geo': canon(o.geometric_spot_radius()), 'centroid': canon(o.centroid()),
                           'data_after': canon(o.data)}
                elif cls == 'EncircledEnergy':
                    o = A.EncircledEnergy(optic, op.get('fields', 'all'), op.get('w', 'primary'), op['num_rays'],
                                          op.get('dist', 'hexapolar'), op.get('num_points', 16))
                    res = {'data': canon(o.data), 'centroid': canon(o.centroid())}
                elif cls == 'RayFan':
                    o = A.RayFan(optic, op.get('fields', 'all'), op.get('wavelengths', 'all'), op['num_points'])
                    res = canon(o.data)
                elif cls == 'YYbar':
                    o = A.YYbar(optic, op.get('w', 'primary'))
                    o.view()
                    import matplotlib.pyplot as plt
                    plt.close('all')
                    res = None
                elif cls == 'Distortion':
                    o = A.Distortion(optic, op.get('wavelengths', 'all'), op['num_points'], op.get('dtype', 'f-tan'))
                    res = canon(o.data)
                elif cls == 'GridDistortion':
                    o = A.GridDistortion(optic, op.get('w', 'primary'), op['num_points'], op.get('dtype', 'f-tan'))
                    res = canon(o.data)
                elif cls == 'FieldCurvature':
                    o = A.FieldCurvature(optic, op.get('wavelengths', 'all'), op['num_points'])
                    res = canon(o.data)
                elif cls == 'RmsSpotSizeVsField':
                    o = A.RmsSpotSizeVsField(optic, op['num_fields'], op.get('wavelengths', 'all'), op['num_rays'])
                    res = canon(o._spot_size)
                elif cls == 'RmsWavefrontErrorVsField':
                    o = A.RmsWavefrontErrorVsField(optic, op['num_fields'], op.get('wavelengths', 'all'),
                                                   op['num_rays'])
                    res = canon(o._wavefront_error)
                elif cls == 'PupilAberration':
                    o = A.PupilAberration(optic, op.get('fields', 'all'), op.get('wavelengths', 'all'),
                                          op['num_points'])
                    res = canon(o.data)
                else:
                    raise KeyError(cls)
            else:
                raise KeyError(kind)
            if kind in FORWARD_TRACING:
                res = {'value': res, 'records': getters(optic)}
            out = {'result': res}
        except KeyError:
            raise
        except Exception as e:  # noqa
            out = {'result': {'raised': type(e).__name__}}
        finally:
            np.seterr(**old)
    out['caller'] = caller_bad
    out['detail'] = detail
    return out


# ----------------------------------------------------------------------------------------------
# op generation
# ----------------------------------------------------------------------------------------------
def gen_ops(rng, spec, heavy=True):
    """a list of distinct calls suited to the lens described by spec (all argument styles)"""
    ws = [w for w, _ in spec['wavelengths']]
    w0 = [w for w, p in spec['wavelengths'] if p][0]
    nf = len(spec['fields'])
    maxf = max(abs(f[0]) for f in spec['fields'])
    hy_fields = [f[0] / maxf if maxf else 0.0 for f in spec['fields']]

    def H():
        return rng.choice(hy_fields + [rng.uniform(0, 1)])

    def arr(n, lo=-1.0, hi=1.0):
        return {'array': [rng.uniform(lo, hi) for _ in range(n)]}

    ops = []
    for d in ('hexapolar', 'uniform', 'line_x', 'line_y', 'cross', 'ring'):
        ops.append({'op': 'trace', 'Hx': 0.0, 'Hy': H(), 'w': rng.choice(ws),
                    'num_rays': rng.choice([2, 3, 5]) if d in ('hexapolar',) else rng.choice([3, 6, 9]), 'dist': d})
    ops.append({'op': 'trace', 'Hx': 0, 'Hy': 1, 'w': w0, 'num_rays': 3, 'dist': 'hexapolar'})
    ops.append({'op': 'trace', 'Hx': 0.0, 'Hy': H(), 'w': rng.choice(ws), 'num_rays': None,
                'dist': {'cls': rng.choice(['hexapolar', 'uniform', 'cross']), 'n': 4}})
    ops.append({'op': 'trace', 'Hx': 0.0, 'Hy': H(), 'w': rng.choice(ws), 'num_rays': None,
                'dist': {'cls': 'random', 'n': 17, 'seed': rng.randrange(1000)}})
    n = rng.choice([1, 2, 5, 9])
    tg = [
        dict(Hx=0.0, Hy=H(), Px=rng.uniform(-1, 1), Py=rng.uniform(-1, 1)),                 # python floats
        dict(Hx=0, Hy=1, Px=0, Py=0),                                                       # python ints
        dict(Hx=0.0, Hy=H(), Px=arr(n), Py=arr(n)),                                         # scalar field, arrays
        dict(Hx={'array': [0.0] * n}, Hy=arr(n, 0, 1), Px=arr(n), Py=arr(n)),               # all arrays
        dict(Hx={'array': [0.0] * n}, Hy=arr(n, 0, 1), Px=0.0, Py=rng.uniform(-1, 1)),      # array field, scalars
        dict(Hx={'array': [0.0]}, Hy={'array': [H()]}, Px=arr(1), Py=arr(1)),               # size-1 arrays
    ]
    for t in tg:
        t.update(op='trace_generic', w=rng.choice(ws))
        ops.append(t)
    for q in PARAXIAL_QUERIES:
        ops.append({'op': 'paraxial', 'q': q})
    ops.append({'op': 'marginal_ray'})
    ops.append({'op': 'chief_ray'})
    ops.append({'op': 'paraxial_trace', 'Hy': H(), 'Py': rng.uniform(-1, 1), 'w': rng.choice(ws)})
    ops.append({'op': 'paraxial_trace', 'Hy': 0, 'Py': arr(rng.choice([2, 7])), 'w': w0})
    for q in ABERRATION_QUERIES:
        ops.append({'op': 'aberration', 'q': q})
    ops.append({'op': 'n', 'w': 'primary'})
    ops.append({'op': 'n', 'w': rng.choice(ws)})
    ops.append({'op': 'info'})
    if heavy:
        f0 = [0.0, H()]
        ops += [
            {'op': 'wavefront', 'cls': 'Wavefront', 'num_rays': 3},
            {'op': 'wavefront', 'cls': 'Wavefront', 'num_rays': 4, 'wavelengths': 'primary', 'dist': 'uniform',
             'fields': [[0.0, H()]]},
            {'op': 'wavefront', 'cls': 'OPDFan', 'num_rays': 7},
            {'op': 'wavefront', 'cls': 'OPD', 'field': f0, 'w': rng.choice(ws), 'num_rays': 3},
            {'op': 'wavefront', 'cls': 'ZernikeOPD', 'field': f0, 'w': w0, 'num_rays': 4, 'terms': 11},
            {'op': 'psf', 'field': f0, 'w': w0, 'num_rays': 16, 'grid': 32},
            {'op': 'mtf', 'cls': 'FFTMTF', 'num_rays': 16, 'grid': 32},
            {'op': 'mtf', 'cls': 'GeometricMTF', 'num_rays': 9, 'num_points': 16},
            {'op': 'analysis', 'cls': 'SpotDiagram', 'num_rays': 3},
            {'op': 'analysis', 'cls': 'SpotDiagram', 'num_rays': 5, 'dist': 'uniform', 'fields': [[0.0, 1.0]]},
            {'op': 'analysis', 'cls': 'EncircledEnergy', 'num_rays': 3},
            {'op': 'analysis', 'cls': 'RayFan', 'num_points': 8},
            {'op': 'analysis', 'cls': 'YYbar'},
            {'op': 'analysis', 'cls': 'Distortion', 'num_points': 9},
            {'op': 'analysis', 'cls': 'Distortion', 'num_points': 5, 'dtype': 'f-theta'},
            {'op': 'analysis', 'cls': 'GridDistortion', 'num_points': 4},
            {'op': 'analysis', 'cls': 'FieldCurvature', 'num_points': 6},
            {'op': 'analysis', 'cls': 'RmsSpotSizeVsField', 'num_fields': 4, 'num_rays': 2},
            {'op': 'analysis', 'cls': 'RmsWavefrontErrorVsField', 'num_fields': 3, 'num_rays': 2},
            {'op': 'analysis', 'cls': 'PupilAberration', 'num_points': 6},
        ]
    return ops


def op_key(op):
    import json
    return json.dumps(op, sort_keys=True)


# ----------------------------------------------------------------------------------------------
# the differential test
# ----------------------------------------------------------------------------------------------
def interleaving(rng, spec, build, ops=None, length=None, heavy=True, record_model=None):
    """reference = every call on its own freshly built lens; then ONE lens object runs a random interleaving in
    which every call occurs at least twice.  Returns (violations, stats).  A violation is a dict with the call,
    the history that preceded it and what differed."""
    ops = ops or gen_ops(rng, spec, heavy)
    ref = {}
    viol = []
    stats = {'ops': len(ops), 'executed': 0, 'raised': 0, 'compared': 0}
    for op in ops:
        o = build(spec)
        ref[op_key(op)] = run_op(o, op)['result']
    seq = list(ops) + list(ops)
    rng.shuffle(seq)
    if length:
        seq = seq[:length]
    o = build(spec)
    state0 = lens_state(o)
    dict0 = lens_dict(o)
    hist = []
    for op in seq:
        r = run_op(o, op)
        stats['executed'] += 1
        if isinstance(r['result'], dict) and 'raised' in r['result']:
            stats['raised'] += 1
        d = first_diff(ref[op_key(op)], r['result'])
        stats['compared'] += 1
        if d:
            viol.append({'kind': 'not-repeatable', 'op': op, 'history': list(hist), 'diff': d})
        if r['caller']:
            viol.append({'kind': 'caller-array-modified', 'op': op, 'args': r['caller'], 'detail': r['detail'],
                         'history': list(hist)})
        s1 = lens_state(o)
        d = first_diff(state0, s1)
        changed = False
        if d:
            viol.append({'kind': 'lens-state-changed', 'op': op, 'history': list(hist), 'diff': d})
            changed = True
        d1 = lens_dict(o)
        d = first_diff(dict0, d1)
        if d:
            viol.append({'kind': 'to_dict-changed', 'op': op, 'history': list(hist), 'diff': d})
            changed = True
        if changed:
            break          # what follows on a changed lens is a consequence, not a further violation
        hist.append(op)
        if len(viol) > 20:
            break
    return viol, stats


def replay(spec, build, history, op):
    """re-run `op` after `history` on one lens and on a fresh lens; returns the same kinds of violation"""
    o = build(spec)
    ref = run_op(build(spec), op)['result']
    for h in history:
        run_op(o, h)
    s0, d0 = lens_state(o), lens_dict(o)
    r = run_op(o, op)
    out = []
    d = first_diff(ref, r['result'])
    if d:
        out.append({'kind': 'not-repeatable', 'diff': d})
    if r['caller']:
        out.append({'kind': 'caller-array-modified', 'args': r['caller']})
    if first_diff(s0, lens_state(o)):
        out.append({'kind': 'lens-state-changed'})
    if first_diff(d0, lens_dict(o)):
        out.append({'kind': 'to_dict-changed'})
    return out


# ----------------------------------------------------------------------------------------------
# one ray does not depend on its companions
# ----------------------------------------------------------------------------------------------
def has_newton(optic):
    return any(hasattr(s.geometry, 'max_iter') for s in optic.surface_group.surfaces)


def newton_tol(optic):
    return max([float(s.geometry.tol) for s in optic.surface_group.surfaces if hasattr(s.geometry, 'tol')] or [0.0])


def _records(optic):
    sg = optic.surface_group
    return np.array([getattr(sg, g) for g in ('x', 'y', 'z', 'L', 'M', 'N', 'intensity', 'opd')])   # (8, nsurf, nray)


class _Points:
    """a caller-made pupil distribution holding exactly the given points (Optic.trace only reads .x and .y)"""
    def __init__(self, x, y):
        self.x = np.array(x, dtype=float)
        self.y = np.array(y, dtype=float)


def _call_trace(optic, mode, Hx, Hy, Px, Py, w):
    """one call with the given rays; returns dict of per-ray tables: 'records' (8, nsurf, n) from the surfaces,
    'rays' (9, n) the returned bundle x y z L M N i opd w, 'p' (n, 3, 3) the polarization matrices if any"""
    f = lambda a: np.array(a, dtype=float)   # noqa
    if mode == 'trace':
        r = optic.trace(float(Hx[0]), float(Hy[0]), w[0] if isinstance(w, list) else w, None, _Points(Px, Py))
    else:
        # a list = one wavelength PER RAY in one call (RayGenerator broadcasts the argument to the rays)
        r = optic.trace_generic(f(Hx), f(Hy), f(Px), f(Py), f(w) if isinstance(w, list) else w)
    out = {'records': _records(optic),
           'rays': np.array([r.x, r.y, r.z, r.L, r.M, r.N, r.i, r.opd])}
    if hasattr(r, 'p'):
        out['p'] = np.moveaxis(np.array(r.p), 0, -1)          # (3, 3, n): ray index last, like the others
    return out


def _same_up_to_nan(a, b):
    return a.shape == b.shape and np.array_equal(np.isnan(a), np.isnan(b)) and \
        np.where(np.isnan(a), 0.0, a).tobytes() == np.where(np.isnan(b), 0.0, b).tobytes()


def batch_independence(optic, Hx, Hy, Px, Py, w, rng, subsets=3, mode='trace_generic'):
    """trace the rays together, alone, in random subsets and permuted (through Optic.trace_generic, or through
    Optic.trace with a caller-made distribution of exactly these pupil points); returns (violations, max
    deviation, count of comparisons).  Compared per ray: the records of every surface, the returned bundle
    (incl. the intensity after PolarizedRays.update_intensity) and the polarization matrix rays.p.
    Closed-form lenses: bit identity.  Lenses with iterated (Newton) surfaces: within the tolerance slack."""
    n = len(Px)
    with warnings.catch_warnings():
        warnings.simplefilter('ignore')
        old = np.seterr(all='ignore')
        try:
            full = _call_trace(optic, mode, Hx, Hy, Px, Py, w)
            newton = has_newton(optic)
            tol = newton_tol(optic)
            viol, worst, cmp_ = [], 0.0, 0
            groups = [[j] for j in range(n)]
            for _ in range(subsets):
                k = rng.randrange(1, n + 1)
                groups.append(rng.sample(range(n), k))
            groups.append(list(reversed(range(n))))
            for g in groups:
                sub = _call_trace(optic, mode, [Hx[j] for j in g], [Hy[j] for j in g], [Px[j] for j in g],
                                  [Py[j] for j in g], [w[j] for j in g] if isinstance(w, list) else w)
                for col, j in enumerate(g):
                    cmp_ += 1
                    for part in full:
                        if part not in sub:
                            viol.append({'ray': j, 'group': g, 'part': part, 'why': 'missing in the smaller call'})
                            continue
                        a, b = full[part][..., j], sub[part][..., col]
                        if a.shape != b.shape:
                            viol.append({'ray': j, 'group': g, 'part': part, 'why': 'shape'})
                            continue
                        if _same_up_to_nan(a, b):
                            continue                 # bit-identical up to NaN sign/payload
                        fin = np.isfinite(a) & np.isfinite(b)
                        dev = float(np.max(np.abs(a[fin] - b[fin]))) if fin.any() else 0.0
                        if not newton:
                            viol.append({'ray': j, 'group': g, 'part': part, 'deviation': dev,
                                         'why': 'closed-form lens: not bit-identical'})
                            continue
                        # same finiteness pattern, finite parts within the tolerance slack
                        if not np.array_equal(np.isnan(a), np.isnan(b)):
                            # a ray that is lost alone must be lost in company (and conversely)
                            viol.append({'ray': j, 'group': g, 'part': part, 'why': 'NaN pattern differs'})
                            continue
                        worst = max(worst, dev)
                        if dev > slack(tol):
                            viol.append({'ray': j, 'group': g, 'part': part, 'why': 'beyond tolerance',
                                         'deviation': dev, 'tol': tol})
            return viol, worst, cmp_
        finally:
            np.seterr(**old)


def slack(tol):
    """allowed per-record deviation for lenses with iterated surfaces: the Newton stopping test bounds the sag
    residual of the accepted iterate by tol; 1e3 covers 1/|N|, the propagation to later surfaces and the OPD sum"""
    return 1e3 * tol


def gen_rays(rng, spec, n, same_field=False):
    """a batch that mixes SPECIAL rays with ordinary skew rays: the axial ray (H = 0, P = 0: vertex hit, normal
    incidence, undeviated at every surface of a centred lens), chief rays (P = 0), a marginal ray in the
    meridional plane, a ray outside the pupil (clipped by apertures / lost / TIR candidates), and skew rays.
    same_field: one field for all rays (what Optic.trace needs)"""
    maxf = max(abs(f[0]) for f in spec['fields'])
    h0 = rng.choice([0.0, 1.0, rng.uniform(0, 1)]) if maxf else 0.0
    special = [(0.0, 0.0, 0.0), (1.0 if maxf else 0.0, 0.0, 0.0), (0.0, 0.0, 1.0), (0.0, 0.0, -0.5),
               (rng.uniform(0, 1) if maxf else 0.0, 1.3 * math.cos(1.0), 1.3 * math.sin(1.0))]
    rng.shuffle(special)
    rays = special[:max(2, n // 3)]
    if not any(r == (0.0, 0.0, 0.0) for r in rays):
        rays[0] = (0.0, 0.0, 0.0)
    while len(rays) < n:
        r, t = rng.choice([0.2, 0.6, 0.95, 0.8]), rng.uniform(0, 2 * math.pi)
        rays.append((rng.choice([0.0, 1.0, rng.uniform(0, 1)]) if maxf else 0.0, r * math.cos(t), r * math.sin(t)))
    rng.shuffle(rays)
    if same_field:
        h = 0.0 if rng.random() < 0.5 else h0
        rays = [(h, px, py) for _, px, py in rays]
    return [0.0] * n, [r[0] for r in rays], [r[1] for r in rays], [r[2] for r in rays]


# ----------------------------------------------------------------------------------------------
# link to the Coq state machine (Model/M_C13.v, size instance of Lemmas/L_C13.v)
# ----------------------------------------------------------------------------------------------
def dist_count(name, n):
    from optiland.distribution import create_distribution
    d = create_distribution(name)
    d.generate_points(n)
    return int(np.size(d.x))


def _site(count, tag=20):
    return 1000 * int(count) + tag


def opcode(optic, op):
    """the Coq opcode (text) that models this call on this lens, or None when the call is not modelled"""
    k = op['op']
    nf_all = len(optic.fields.get_field_coords())
    nw_all = len(optic.wavelengths.get_wavelengths())

    def nf(o):
        f = o.get('fields', 'all')
        return nf_all if f == 'all' else len(f)

    def nw(o):
        w = o.get('wavelengths', 'all')
        return nw_all if w == 'all' else (1 if w == 'primary' else len(w))

    def odd(n):
        return n + 1 if n % 2 == 0 else n

    if k == 'trace':
        d = op['dist']
        c = d['n'] if isinstance(d, dict) and d['cls'] == 'random' else \
            dist_count(d['cls'], d['n']) if isinstance(d, dict) else dist_count(d, op['num_rays'])
        return f'Otrace {_site(c)}'
    if k == 'trace_generic':
        c = max(len(v['array']) if isinstance(v, dict) else 1 for v in (op['Hx'], op['Hy'], op['Px'], op['Py']))
        return f'Otrace {_site(c)}'
    if k == 'paraxial':
        return {'f1': 'Of1', 'f2': 'Of2', 'F1': 'OF1', 'F2': 'OF2', 'P1': 'OP1', 'P2': 'OP2', 'N1': 'ON1', 'N2': 'ON2',
                'EPL': 'OEPL', 'EPD': 'OEPD', 'XPL': 'OXPL', 'XPD': 'OXPD', 'FNO': 'OFNO',
                'magnification': 'Omagnification', 'invariant': 'Oinvariant'}[op['q']]
    if k == 'marginal_ray':
        return 'Omarginal'
    if k == 'chief_ray':
        return 'Ochief'
    if k == 'paraxial_trace':
        c = len(op['Py']['array']) if isinstance(op['Py'], dict) else 1
        return f'Optrace {_site(c)}'
    if k == 'aberration':
        return 'Oaberration'
    if k in ('n', 'info'):
        return 'Opure'
    if k == 'wavefront':
        cls = op['cls']
        if cls == 'Wavefront':
            return f'Owavefront {nf(op)} {nw(op)} {_site(1, 21)} {_site(dist_count(op.get("dist", "hexapolar"), op["num_rays"]), 22)}'
        if cls == 'OPDFan':
            return f'Owavefront {nf(op)} {nw(op)} {_site(1, 21)} {_site(dist_count("cross", op["num_rays"]), 22)}'
        return f'Owavefront 1 1 {_site(1, 21)} {_site(dist_count("hexapolar", op["num_rays"]), 22)}'
    if k == 'psf':
        return f'Owavefront 1 1 {_site(1, 21)} {_site(dist_count("uniform", op["num_rays"]), 22)}'
    if k == 'mtf':
        if op['cls'] == 'FFTMTF':
            return f'Offtmtf {nf(op)} {_site(1, 21)} {_site(dist_count("uniform", op["num_rays"]), 22)}'
        return f'Ogeomtf {nf(op)} {_site(dist_count(op.get("dist", "uniform"), op["num_rays"]))}'
    if k == 'analysis':
        cls = op['cls']
        if cls == 'SpotDiagram':
            return f'Ospot {nf(op)} {nw(op)} {_site(dist_count(op.get("dist", "hexapolar"), op["num_rays"]))}'
        if cls == 'EncircledEnergy':
            return f'Ospot {nf(op)} 1 {_site(dist_count(op.get("dist", "hexapolar"), op["num_rays"]))}'
        if cls == 'RayFan':
            n = odd(op['num_points'])
            return f'Orayfan {nf(op)} {nw(op)} {_site(n, 23)} {_site(n, 24)}'
        if cls == 'YYbar':
            return 'Oyybar'
        if cls == 'Distortion':
            return f'Odistortion {nw(op)} {_site(op["num_points"])}'
        if cls == 'GridDistortion':
            return f'Ogriddist {_site(1, 21)} {_site(op["num_points"] ** 2, 22)}'
        if cls == 'FieldCurvature':
            return f'Ofieldcurv {nw(op)} {_site(2 * op["num_points"])}'
        if cls == 'RmsSpotSizeVsField':
            return f'Ospot {op["num_fields"]} {nw(op)} {_site(dist_count("hexapolar", op["num_rays"]))}'
        if cls == 'RmsWavefrontErrorVsField':
            return f'Owavefront {op["num_fields"]} {nw(op)} {_site(1, 21)} {_site(dist_count("hexapolar", op["num_rays"]), 22)}'
        if cls == 'PupilAberration':
            n = odd(op['num_points'])
            return f'Opupil {nf(op)} {nw(op)} {_site(1, 25)} {_site(n, 26)} {_site(n, 23)} {_site(n, 24)}'
    return None


def coq_cfg(optic):
    ap = {'EPD': 0, 'imageFNO': 1, 'objectNA': 2}[optic.aperture.ap_type]
    b = lambda v: 'true' if v else 'false'   # noqa
    return (f'(mkCfg {ap} {b(optic.object_surface.is_infinite)} {b(optic.field_type == "object_height")} '
            f'{b(optic.field_type == "angle")} {b(optic.obj_space_telecentric)})')


def coq_table(t):
    return '[' + '; '.join('[' + '; '.join(f'{v}%Z' for v in row) + ']' for row in t) + ']'


def history_tables(rng, spec, length=24, heavy=True):
    """run a random history on one lens object, recording the sizes of all record arrays after every call.
    returns dict(cfg, stop, nsurf, steps=[(op, opcode, table)]) - truncated at the first call that raises"""
    o = build(spec)
    ops = [op for op in gen_ops(rng, spec, heavy)]
    rng.shuffle(ops)
    steps = []
    for op in ops[:length]:
        code = opcode(o, op)
        if code is None:
            continue
        r = run_op(o, op)
        if isinstance(r['result'], dict) and 'raised' in r['result']:
            break
        steps.append((op, code, record_sizes(o)))
    return {'cfg': coq_cfg(o), 'stop': int(o.surface_group.stop_index), 'nsurf': int(o.surface_group.num_surfaces),
            'steps': steps}


def coq_history_case(name, h):
    codes = '; '.join(f'({c})' if ' ' in c else c for _, c, _ in h['steps'])
    obs = ';\n    '.join(coq_table(t) for _, _, t in h['steps'])
    return (f'Definition l_{name} := size_lens {h["stop"]} {h["nsurf"]} {h["cfg"]}.\n'
            f'Definition h_{name} : list opcode := [{codes}].\n'
            f'Definition o_{name} : list (list (list Z)) := [\n    {obs}].\n'
            f'Definition r_{name} := map (fun p => table_eqb (fst p) (snd p)) (combine (tables h_{name} l_{name}) o_{name}).\n')


# ----------------------------------------------------------------------------------------------
# static extraction: which parameters does a function write IN PLACE (aliasing writes)?
# ----------------------------------------------------------------------------------------------
def inplace_params(path, cls, func):
    """names of the parameters of cls.func (file `path`) that are the target of an augmented assignment or of a
    subscript store before being rebound: for an ndarray argument such a write goes to the caller's array"""
    import ast
    tree = ast.parse(open(path).read())
    fn = None
    for node in ast.walk(tree):
        if isinstance(node, ast.ClassDef) and node.name == cls:
            for b in node.body:
                if isinstance(b, ast.FunctionDef) and b.name == func:
                    fn = b
    if fn is None:
        raise KeyError(f'{cls}.{func} not found in {path}')
    params = [a.arg for a in fn.args.args + fn.args.kwonlyargs if a.arg != 'self']
    rebound, hits = set(), []

    def visit(stmts):
        for s in stmts:
            if isinstance(s, ast.AugAssign):
                t = s.target
                if isinstance(t, ast.Name) and t.id in params and t.id not in rebound and t.id not in hits:
                    hits.append(t.id)
                if isinstance(t, ast.Subscript) and isinstance(t.value, ast.Name) and t.value.id in params \
                        and t.value.id not in rebound and t.value.id not in hits:
                    hits.append(t.value.id)
            elif isinstance(s, ast.Assign):
                for t in s.targets:
                    for n in ast.walk(t):
                        if isinstance(n, ast.Subscript) and isinstance(n.value, ast.Name) and n.value.id in params \
                                and n.value.id not in rebound and n.value.id not in hits:
                            hits.append(n.value.id)
                    for n in ([t] if isinstance(t, ast.Name) else (t.elts if isinstance(t, (ast.Tuple, ast.List)) else [])):
                        if isinstance(n, ast.Name):
                            rebound.add(n.id)
            for attr in ('body', 'orelse', 'finalbody'):
                sub = getattr(s, attr, None)
                if isinstance(sub, list) and sub and isinstance(sub[0], ast.stmt):
                    visit(sub)
    visit(fn.body)
    return hits


# ----------------------------------------------------------------------------------------------
# method-level histories on ONE analysis object
# ----------------------------------------------------------------------------------------------
ANALYSIS_KINDS = ('wavefront', 'psf', 'mtf', 'analysis')


def make_analysis(optic, op):
    """construct the analysis object an op of kind wavefront / psf / mtf / analysis describes (and keep it)"""
    import optiland.analysis as A
    from optiland import wavefront as W
    k = op['op']
    if k == 'wavefront':
        cls = op['cls']
        if cls == 'Wavefront':
            return W.Wavefront(optic, op.get('fields', 'all'), op.get('wavelengths', 'all'), op['num_rays'],
                               op.get('dist', 'hexapolar'))
        if cls == 'OPDFan':
            return W.OPDFan(optic, op.get('fields', 'all'), op.get('wavelengths', 'all'), op['num_rays'])
        if cls == 'OPD':
            return W.OPD(optic, tuple(op['field']), op['w'], op['num_rays'])
        if cls == 'ZernikeOPD':
            return W.ZernikeOPD(optic, tuple(op['field']), op['w'], op['num_rays'], op.get('ztype', 'fringe'),
                                op.get('terms', 15))
    if k == 'psf':
        from optiland.psf import FFTPSF
        return FFTPSF(optic, tuple(op['field']), op['w'], op['num_rays'], op['grid'])
    if k == 'mtf':
        from optiland import mtf as Mt
        if op['cls'] == 'FFTMTF':
            return Mt.FFTMTF(optic, op.get('fields', 'all'), op.get('w', 'primary'), op['num_rays'], op['grid'])
        return Mt.GeometricMTF(optic, op.get('fields', 'all'), op.get('w', 'primary'), op['num_rays'],
                               op.get('dist', 'uniform'), op.get('num_points', 32))
    if k == 'analysis':
        cls = op['cls']
        if cls == 'SpotDiagram':
            return A.SpotDiagram(optic, op.get('fields', 'all'), op.get('wavelengths', 'all'), op['num_rays'],
                                 op.get('dist', 'hexapolar'))
        if cls == 'EncircledEnergy':
            return A.EncircledEnergy(optic, op.get('fields', 'all'), op.get('w', 'primary'), op['num_rays'],
                                     op.get('dist', 'hexapolar'), op.get('num_points', 16))
        if cls == 'RayFan':
            return A.RayFan(optic, op.get('fields', 'all'), op.get('wavelengths', 'all'), op['num_points'])
        if cls == 'YYbar':
            return A.YYbar(optic, op.get('w', 'primary'))
        if cls == 'Distortion':
            return A.Distortion(optic, op.get('wavelengths', 'all'), op['num_points'], op.get('dtype', 'f-tan'))
        if cls == 'GridDistortion':
            return A.GridDistortion(optic, op.get('w', 'primary'), op['num_points'], op.get('dtype', 'f-tan'))
        if cls == 'FieldCurvature':
            return A.FieldCurvature(optic, op.get('wavelengths', 'all'), op['num_points'])
        if cls == 'RmsSpotSizeVsField':
            return A.RmsSpotSizeVsField(optic, op['num_fields'], op.get('wavelengths', 'all'), op['num_rays'])
        if cls == 'RmsWavefrontErrorVsField':
            return A.RmsWavefrontErrorVsField(optic, op['num_fields'], op.get('wavelengths', 'all'), op['num_rays'])
        if cls == 'PupilAberration':
            return A.PupilAberration(optic, op.get('fields', 'all'), op.get('wavelengths', 'all'), op['num_points'])
    raise KeyError(str(op))


def public_queries(obj):
    """every public method of the object's class (inherited ones included) that can be called without
    arguments, as (name, kwargs); view-like methods with a `projection` option are listed in both projections.
    Found by introspection: nothing is named here."""
    import inspect
    out = []
    for name, fn in inspect.getmembers(type(obj), predicate=inspect.isfunction):
        if name.startswith('_'):
            continue
        params = list(inspect.signature(fn).parameters.values())[1:]
        if any(p.default is p.empty and p.kind in (p.POSITIONAL_ONLY, p.POSITIONAL_OR_KEYWORD, p.KEYWORD_ONLY)
               for p in params):
            continue
        out.append((name, {}))
        if any(p.name == 'projection' for p in params):
            out.append((name, {'projection': '3d'}))
        if any(p.name == 'add_reference' for p in params):
            out.append((name, {'add_reference': True}))
    return out


def object_state(obj):
    """deep, bit-exact snapshot of everything the analysis object stores (the lens it points to is left out:
    lens_state covers it)"""
    d = {k: v for k, v in getattr(obj, '__dict__', {}).items() if k != 'optic'}
    return _walk(d, frozenset({id(obj)}), 0, False)


def _raw_arrays(o, path='', seen=None, depth=0, out=None):
    """copies of every float ndarray the analysis object stores, keyed by path (for describing a change)"""
    out = {} if out is None else out
    seen = set() if seen is None else seen
    if depth > 8 or id(o) in seen:
        return out
    if isinstance(o, np.ndarray):
        if o.dtype.kind == 'f':
            out[path] = o.copy()
        return out
    if isinstance(o, (list, tuple)):
        seen.add(id(o))
        for i, x in enumerate(o):
            _raw_arrays(x, f'{path}[{i}]', seen, depth + 1, out)
    elif isinstance(o, dict):
        seen.add(id(o))
        for k, x in o.items():
            _raw_arrays(x, f'{path}.{k}', seen, depth + 1, out)
    elif hasattr(o, '__dict__') and type(o).__name__ not in ('Optic',):
        seen.add(id(o))
        for k, x in o.__dict__.items():
            if k != 'optic':
                _raw_arrays(x, f'{path}.{k}', seen, depth + 1, out)
    return out


def _change_profile(before, after):
    """what a state change consisted of: which arrays, how many entries, and whether every changed entry is a
    finite value overwritten by NaN (the masking of failed rays) or something else"""
    changed, entries, only_nan = [], 0, True
    for k in sorted(set(before) | set(after)):
        a, b = before.get(k), after.get(k)
        if a is None or b is None or a.shape != b.shape:
            changed.append(k)
            only_nan = False
            continue
        diff = ~((a == b) | (np.isnan(a) & np.isnan(b)))
        if diff.any():
            changed.append(k)
            entries += int(diff.sum())
            if not np.isnan(b[diff]).all():
                only_nan = False
    return {'arrays': changed[:6], 'entries': entries, 'only_nan_written': bool(changed) and only_nan}


def _call_query(obj, name, kwargs):
    import matplotlib.pyplot as plt
    with warnings.catch_warnings():
        warnings.simplefilter('ignore')
        old = np.seterr(all='ignore')
        try:
            r = getattr(obj, name)(**kwargs)
            return canon(r) if not hasattr(r, '__dict__') or isinstance(r, np.ndarray) else '<' + type(r).__name__ + '>'
        except Exception as e:   # noqa
            return {'raised': type(e).__name__}
        finally:
            np.seterr(**old)
            plt.close('all')


def method_histories(rng, spec, build_fn, ops=None, repeats=2):
    """for every analysis object of the catalogue: reference = each public query on a pristine copy of the object;
    then ONE object runs a random interleaving in which every query occurs `repeats` times.  After every query: the
    result is compared bit for bit with the reference, the object's stored state (.data ...) with its state
    before the query, and the lens with its state before.  Returns (violations, stats)."""
    import copy
    ops = [op for op in (ops or gen_ops(rng, spec, True)) if op['op'] in ANALYSIS_KINDS]
    viol = []
    stats = {'objects': 0, 'classes': {}, 'queries': 0, 'raised': 0, 'constructor_raised': 0, 'methods': {}}
    optic = build_fn(spec)
    for op in ops:
        with warnings.catch_warnings():
            warnings.simplefilter('ignore')
            old = np.seterr(all='ignore')
            try:
                obj = make_analysis(optic, op)
            except Exception:   # noqa
                stats['constructor_raised'] += 1
                continue
            finally:
                np.seterr(**old)
        cname = type(obj).__name__
        qs = public_queries(obj)
        if not qs:
            continue
        stats['objects'] += 1
        stats['classes'][cname] = stats['classes'].get(cname, 0) + 1
        stats['methods'][cname] = sorted({q[0] for q in qs})
        ref = {}
        for q in qs:
            pristine = copy.deepcopy(obj, {id(obj.optic): obj.optic})
            ref[str(q)] = _call_query(pristine, *q)
        seq = list(qs) * repeats
        rng.shuffle(seq)
        s_obj = object_state(obj)
        s_lens = lens_state(optic)
        hist = []
        for q in seq:
            raw0 = _raw_arrays(obj)
            r = _call_query(obj, *q)
            stats['queries'] += 1
            if isinstance(r, dict) and 'raised' in r:
                stats['raised'] += 1
            def base(kind, **kw):      # witness: what failed first, the lens last
                w = {'kind': kind, 'cls': cname, 'method': q[0], 'kwargs': q[1],
                     'history_on_this_object': [h[0] for h in hist]}
                w.update(kw)
                w.update({'constructor': op, 'history': [list(h) for h in hist], 'spec': spec})
                return w
            d = first_diff(ref[str(q)], r)
            if d:
                viol.append(base('analysis-query-not-repeatable', diff=d))
            s1 = object_state(obj)
            d = first_diff(s_obj, s1)
            if d:
                viol.append(base('analysis-object-state-changed', diff=d,
                                 change=_change_profile(raw0, _raw_arrays(obj))))
                s_obj = s1
            l1 = lens_state(optic)
            d = first_diff(s_lens, l1)
            if d:
                viol.append(base('lens-state-changed', diff=d, op={'op': 'method', 'cls': cname, 'method': q[0]}))
                return viol, stats     # the lens is shared by all objects: stop, the rest would be consequences
            hist.append((q[0], q[1]))
            if len(viol) > 40:
                return viol, stats
    return viol, stats


def replay_method_history(spec, build_fn, constructor, history, method, kwargs):
    """re-run one witness of method_histories; returns the kinds of violation seen at the last query"""
    import copy
    optic = build_fn(spec)
    obj = make_analysis(optic, constructor)
    pristine = copy.deepcopy(obj, {id(obj.optic): obj.optic})
    ref = _call_query(pristine, method, kwargs)
    for h in history:
        _call_query(obj, h[0], h[1])
    s0 = object_state(obj)
    raw0 = _raw_arrays(obj)
    r = _call_query(obj, method, kwargs)
    out = []
    if first_diff(ref, r):
        out.append('analysis-query-not-repeatable')
    if first_diff(s0, object_state(obj)):
        out.append('analysis-object-state-changed')
        out.append(_change_profile(raw0, _raw_arrays(obj)))
    return out


# ----------------------------------------------------------------------------------------------
# unit-level batch-vs-alone oracle for the per-ray polarization code
# ----------------------------------------------------------------------------------------------
UNIT_SITES = ['PolarizedRays.update', 'PolarizedRays.get_output_field', 'PolarizedRays.update_intensity']


def _unit(v):
    v = np.array(v, dtype=float)
    return v / np.linalg.norm(v)


def polarized_unit_independence(rng, ncases):
    """PolarizedRays.update / get_output_field / update_intensity on a batch that mixes undeviated rays
    (k1 = k0: normal incidence, index-matched surface), reversed rays (k1 = -k0) and deviated rays, against the
    same rays one at a time.  Returns (violations, comparisons)."""
    from optiland.rays import PolarizedRays
    from optiland.rays.polarization_state import create_polarization
    viol, cmp_ = [], 0

    def make(k0, k1):
        k0, k1 = np.atleast_2d(k0), np.atleast_2d(k1)
        n = k0.shape[0]
        r = PolarizedRays(np.zeros(n), np.zeros(n), np.zeros(n), k0[:, 0].copy(), k0[:, 1].copy(), k0[:, 2].copy(),
                          np.ones(n), np.full(n, 0.55))
        r.L0, r.M0, r.N0 = k0[:, 0].copy(), k0[:, 1].copy(), k0[:, 2].copy()
        r.L, r.M, r.N = k1[:, 0].copy(), k1[:, 1].copy(), k1[:, 2].copy()
        return r

    with warnings.catch_warnings():
        warnings.simplefilter('ignore')
        old = np.seterr(all='ignore')
        try:
            for c in range(ncases):
                n = rng.choice([2, 3, 5, 8])
                k0, k1 = [], []
                for j in range(n):
                    a = _unit([rng.uniform(-0.4, 0.4), rng.uniform(-0.4, 0.4), 1.0])
                    kind = 'same' if j == 0 else rng.choice(['same', 'dev', 'dev', 'dev', 'flip'])
                    if kind == 'same':
                        a = _unit([0.0, 0.0, 1.0]) if rng.random() < 0.5 else a
                        b = a.copy()
                    elif kind == 'flip':
                        b = -a
                    else:
                        b = _unit(a + np.array([rng.uniform(-0.3, 0.3), rng.uniform(-0.3, 0.3), rng.uniform(-0.1, 0.1)]))
                    k0.append(a)
                    k1.append(b)
                k0, k1 = np.array(k0), np.array(k1)
                order = list(range(n))
                rng.shuffle(order)
                k0, k1 = k0[order], k1[order]
                jones = None
                if c % 2:
                    jones = np.zeros((n, 3, 3), dtype=complex)
                    for j in range(n):
                        jones[j, 0, 0] = complex(rng.uniform(0.5, 1), rng.uniform(-0.2, 0.2))
                        jones[j, 1, 1] = complex(rng.uniform(0.5, 1), rng.uniform(-0.2, 0.2))
                        jones[j, 2, 2] = 1.0
                state = create_polarization(rng.choice(['H', 'V', 'unpolarized', 'L+45']))
                E = np.array([[complex(rng.uniform(-1, 1), rng.uniform(-1, 1)) for _ in range(3)] for _ in range(n)])
                batch = make(k0, k1)
                batch.update(jones)
                pb = np.array(batch.p)
                eb = np.array(batch.get_output_field(E))
                try:
                    batch.update_intensity(state)
                    ib = np.array(batch.i)
                except Exception:   # noqa
                    ib = None
                for j in range(n):
                    one = make(k0[j], k1[j])
                    one.update(None if jones is None else jones[j:j + 1])
                    cmp_ += 1
                    checks = [('PolarizedRays.update', pb[j], np.array(one.p)[0]),
                              ('PolarizedRays.get_output_field', eb[j], np.array(one.get_output_field(E[j:j + 1]))[0])]
                    if ib is not None:
                        try:
                            one.update_intensity(state)
                            checks.append(('PolarizedRays.update_intensity', ib[j:j + 1], np.array(one.i)))
                        except Exception:   # noqa
                            pass
                    for site, a, b in checks:
                        a = np.concatenate([np.real(a).ravel(), np.imag(a).ravel()])
                        b = np.concatenate([np.real(b).ravel(), np.imag(b).ravel()])
                        if not _same_up_to_nan(a, b):
                            fin = np.isfinite(a) & np.isfinite(b)
                            viol.append({'site': site, 'ray': j, 'k0': k0.tolist(), 'k1': k1.tolist(),
                                         'jones': jones is not None,
                                         'deviation': float(np.max(np.abs(a[fin] - b[fin]))) if fin.any() else None})
                            break
                if viol:
                    break
        finally:
            np.seterr(**old)
    return viol, cmp_


# ----------------------------------------------------------------------------------------------
# exceptional rays: every geometry class, batches mixing ordinary rays with every kind of exceptional ray
# ----------------------------------------------------------------------------------------------
GEOMETRY_KINDS = ['Plane', 'StandardGeometry', 'EvenAsphere', 'PolynomialGeometry', 'ChebyshevPolynomialGeometry']
RAY_CLASSES = ['ordinary', 'vertex', 'miss', 'behind', 'behind-but-base-sphere-in-front', 'grazing', 'dead-NaN',
               'backward']


def make_geometry(kind, rng):
    """(geometry, base quadric or None): strong figure terms so that the real surface and its base sphere differ by
    more than a millimetre near the rim"""
    from optiland.coordinate_system import CoordinateSystem
    from optiland import geometries as Gm
    R = rng.uniform(25, 120) * rng.choice([-1, 1])
    k = rng.choice([0.0, 0.0, rng.uniform(-1.2, 0.4)])
    a = rng.uniform(0.02, 0.06) * rng.choice([-1, 1])
    if kind == 'Plane':
        return Gm.Plane(CoordinateSystem()), None
    base = Gm.StandardGeometry(CoordinateSystem(), R, k)
    if kind == 'StandardGeometry':
        return base, None
    if kind == 'EvenAsphere':
        return Gm.EvenAsphere(CoordinateSystem(), R, k, 1e-10, 100, [a, rng.uniform(-1, 1) * 1e-5]), base
    if kind == 'PolynomialGeometry':
        c = [[0.0, 0.0, a], [0.0, rng.uniform(-1, 1) * 1e-3, 0.0], [a * rng.uniform(0.5, 1.0), 0.0, 0.0]]
        return Gm.PolynomialGeometry(CoordinateSystem(), R, k, 1e-10, 100, c), base
    if kind == 'ChebyshevPolynomialGeometry':
        # a r^2 on the square |x|,|y| <= 12:  a*144*(u^2+v^2) = 72 a (T2(u) + T2(v) + 2)
        c = [[144 * a, 0.0, 72 * a], [0.0, 0.0, 0.0], [72 * a, 0.0, 0.0]]
        return Gm.ChebyshevPolynomialGeometry(CoordinateSystem(), R, k, 1e-10, 100, c, 12.0, 12.0), base
    raise KeyError(kind)


def exceptional_ray(cls, rng, geom, base):
    """[x, y, z, L, M, N] of a ray of the given class in the geometry's local frame, or None if the class does not
    apply to this geometry"""
    def sag(g, x, y):
        with np.errstate(all='ignore'):
            return float(np.ravel(g.sag(np.array([x]), np.array([y])))[0])
    x, y = rng.uniform(-7, 7), rng.uniform(-7, 7)
    L, M = rng.uniform(-0.3, 0.3), rng.uniform(-0.3, 0.3)
    N = math.sqrt(1 - L * L - M * M)
    if cls == 'ordinary':
        return [x, y, rng.uniform(-20, -3), L, M, N]
    if cls == 'vertex':
        return [0.0, 0.0, -5.0, 0.0, 0.0, 1.0]
    if cls == 'miss':
        if base is None and type(geom).__name__ == 'Plane':
            return [x, y, -4.0, 1.0, 0.0, 0.0]                      # parallel to the plane
        R = abs(float(geom.radius))
        if type(geom).__name__ == 'ChebyshevPolynomialGeometry':
            return [11.5, 11.5, -300.0, 0.6, 0.0, 0.8]             # passes the base sphere sideways, inside the domain
        return [1.5 * R, 0.0, -10.0, 0.0, 0.0, 1.0]
    if cls == 'behind':
        s = sag(geom, x, y)
        return None if not math.isfinite(s) else [x, y, s + rng.uniform(1.0, 4.0), 0.05, -0.03, math.sqrt(1 - 0.0034)]
    if cls == 'backward':
        s = sag(geom, x, y)
        return None if not math.isfinite(s) else [x, y, s - rng.uniform(1.0, 4.0), 0.05, 0.02, -math.sqrt(1 - 0.0029)]
    if cls == 'behind-but-base-sphere-in-front':
        if base is None:
            return None
        for _ in range(20):
            x, y = rng.uniform(-8, 8), rng.uniform(-8, 8)
            sg, sb = sag(geom, x, y), sag(base, x, y)
            if math.isfinite(sg) and math.isfinite(sb) and abs(sg - sb) > 0.8:
                z = 0.5 * (sg + sb)
                d = 1.0 if sb > sg else -1.0               # travel towards the base sphere, away from the surface
                return [x, y, z, 0.0, 0.0, d]
        return None
    if cls == 'grazing':
        return [-6.0, y, -1.0, math.sqrt(1 - 0.0016), 0.0, 0.04]
    if cls == 'dead-NaN':
        return [float('nan'), y, -5.0, L, M, N]
    raise KeyError(cls)


def _rr(rows):
    from optiland.rays import RealRays
    a = np.array(rows, dtype=float).reshape(-1, 6)
    n = a.shape[0]
    return RealRays(a[:, 0].copy(), a[:, 1].copy(), a[:, 2].copy(), a[:, 3].copy(), a[:, 4].copy(), a[:, 5].copy(),
                    np.ones(n), np.full(n, 0.55))


def geometry_independence(rng, ncases):
    """<Geometry>.distance and .surface_normal of every geometry class on batches that mix ordinary rays with every
    class of exceptional ray, against the same rays one at a time: NaN pattern and values, ray by ray.
    Returns (violations, stats, comparisons); stats[kind][ray class] = how many such rays were compared, and how
    many of them the geometry reports as a miss when alone"""
    viol, cmp_ = [], 0
    stats = {k: {c: [0, 0] for c in RAY_CLASSES} for k in GEOMETRY_KINDS}
    with warnings.catch_warnings():
        warnings.simplefilter('ignore')
        old = np.seterr(all='ignore')
        try:
            for c in range(ncases):
                kind = GEOMETRY_KINDS[c % len(GEOMETRY_KINDS)]
                geom, base = make_geometry(kind, rng)
                newton = hasattr(geom, 'max_iter')
                n_ord = rng.choice([1, 2, 4, 7])
                n_exc = rng.choice([1, 1, 2, 5])
                classes = ['ordinary'] * n_ord + [rng.choice(RAY_CLASSES[1:]) for _ in range(n_exc)]
                if c % 3 == 0 and base is not None:
                    classes.append('behind-but-base-sphere-in-front')
                rng.shuffle(classes)
                rows, labels = [], []
                for cl in classes:
                    r = exceptional_ray(cl, rng, geom, base)
                    if r is not None:
                        rows.append(r)
                        labels.append(cl)
                if len(rows) < 2:
                    continue
                try:
                    tb = np.array(geom.distance(_rr(rows)), dtype=float)
                except Exception as e:   # noqa   (a whole-batch refusal, e.g. the Chebyshev domain check)
                    continue
                for j, (row, cl) in enumerate(zip(rows, labels)):
                    try:
                        ta = float(np.ravel(geom.distance(_rr([row])))[0])
                    except Exception:   # noqa
                        continue
                    cmp_ += 1
                    stats[kind][cl][0] += 1
                    stats[kind][cl][1] += int(not math.isfinite(ta))
                    a, b = float(tb[j]), ta
                    bad = None
                    if math.isnan(a) != math.isnan(b):
                        bad = 'NaN pattern differs'
                    elif not math.isnan(a) and a != b:
                        dev = abs(a - b)
                        if not newton:
                            bad = 'closed-form geometry: not bit-identical'
                        elif not (dev <= slack(float(geom.tol)) * max(1.0, abs(b))) and math.isfinite(b):
                            bad = 'beyond tolerance'
                        elif not math.isfinite(b) and a != b:
                            bad = 'infinite value differs'
                    if bad:
                        viol.append({'site': kind + '.distance', 'geometry': kind, 'ray_class': cl, 'ray': j,
                                     'why': bad, 't_in_batch': a, 't_alone': b, 'classes_in_batch': labels,
                                     'rays': rows, 'radius': float(getattr(geom, 'radius', float('inf'))),
                                     'conic': float(getattr(geom, 'k', 0.0)),
                                     'coefficients': np.array(getattr(geom, 'c', [])).tolist()})
                        return viol, stats, cmp_
        finally:
            np.seterr(**old)
    return viol, stats, cmp_


def exceptional_specs():
    """lenses with exceptional rays inside the beam: a strongly figured surface 0.3 mm behind the stop whose outer
    zone lies in FRONT of the stop plane (even asphere, polynomial, Chebyshev: the aspheric analogue of lensgen's
    'crossing-faces'), the conic crossing-faces lens itself and a plano-convex lens with TIR at the rim"""
    import lensgen
    inf = float('inf')
    base = {'field_type': 'angle', 'fields': [[0.0, 0.0, 0.0, 0.0], [4.0, 0.0, 0.0, 0.0]],
            'wavelengths': [[0.55, True]], 'telecentric': False, 'object_thickness': inf}
    back = {'type': 'standard', 'radius': -6.0, 'thickness': 20.0, 'material': 'air'}
    stop = {'type': 'standard', 'radius': inf, 'thickness': 0.3, 'is_stop': True, 'material': 'air'}
    out = []
    for epd in (6.0, 9.0):
        out.append(dict(base, name=f'asphere-crosses-stop-epd{epd:g}', aperture=['EPD', epd], surfaces=[
            dict(stop), {'type': 'even_asphere', 'radius': -200.0, 'thickness': 2.0, 'coefficients': [-0.06, -2e-5],
                         'material': ['ideal', 1.62, 0.0]}, dict(back)]))
        out.append(dict(base, name=f'polynomial-crosses-stop-epd{epd:g}', aperture=['EPD', epd], surfaces=[
            dict(stop), {'type': 'polynomial', 'radius': -200.0, 'thickness': 2.0,
                         'coefficients': [[0.0, 0.0, -0.06], [0.0, 0.0, 0.0], [-0.06, 0.0, 0.0]],
                         'material': ['ideal', 1.62, 0.0]}, dict(back)]))
        out.append(dict(base, name=f'chebyshev-crosses-stop-epd{epd:g}', aperture=['EPD', epd], surfaces=[
            dict(stop), {'type': 'chebyshev', 'radius': -200.0, 'thickness': 2.0, 'norm_x': 10.0, 'norm_y': 10.0,
                         'coefficients': [[-6.0, 0.0, -3.0], [0.0, 0.0, 0.0], [-3.0, 0.0, 0.0]],
                         'material': ['ideal', 1.62, 0.0]}, dict(back)]))
    for s in lensgen.corpus():
        if s.get('name') in ('crossing-faces', 'tir-planoconvex'):
            out.append(dict(s))
    for s in out:
        s['variant'] = 'exceptional: ' + s['name']
    return out


def fan_rays(rng, spec, n):
    """meridional + sagittal fans over the whole pupil (incl. the axial ray and the rim) plus skew rays"""
    maxf = max(abs(f[0]) for f in spec['fields'])
    h = rng.choice([0.0, 0.0, 1.0]) if maxf else 0.0
    pts = [(0.0, p) for p in np.linspace(-1, 1, n).tolist()] + [(p, 0.0) for p in (-1.0, -0.5, 0.5, 1.0)]
    for _ in range(3):
        r, t = rng.uniform(0.1, 1.0), rng.uniform(0, 2 * math.pi)
        pts.append((r * math.cos(t), r * math.sin(t)))
    rng.shuffle(pts)
    return [0.0] * len(pts), [h] * len(pts), [p[0] for p in pts], [p[1] for p in pts]


# ----------------------------------------------------------------------------------------------
# multi-item requests: one call that analyses several (field, wavelength) pairs.  The entry for one pair must not
# depend on which pairs were analysed before it IN THE SAME CALL (nor on their order): it is the entry of the
# request that asks for that pair alone.
# ----------------------------------------------------------------------------------------------
def chromatic_specs():
    """fixed corpus: refracting lenses of catalogue glass (lateral AND axial colour) with off-axis fields, several
    wavelengths; infinite / finite object, with and without vignetting factors, stop in front / inside"""
    inf = float('inf')
    wl = [[0.4861, False], [0.5876, True], [0.6563, False]]
    out = [
        {'name': 'chromatic-singlet', 'object_thickness': inf, 'aperture': ['EPD', 8.0], 'field_type': 'angle',
         'fields': [[0.0, 0.0, 0.0, 0.0], [7.0, 0.0, 0.0, 0.0]], 'wavelengths': wl, 'telecentric': False,
         'surfaces': [{'type': 'standard', 'radius': 55.0, 'thickness': 4.0, 'is_stop': True,
                       'material': ['glass', 'N-SF5', 'schott']},
                      {'type': 'standard', 'radius': -70.0, 'thickness': 45.0, 'material': 'air'}]},
        {'name': 'chromatic-singlet-finite-vignetted', 'object_thickness': 150.0, 'aperture': ['objectNA', 0.03],
         'field_type': 'object_height',
         'fields': [[6.0, 0.0, 0.1, 0.2], [0.0, 0.0, 0.0, 0.0], [3.0, 0.0, 0.0, 0.1]],
         'wavelengths': [[0.6563, False], [0.45, True]], 'telecentric': False,
         'surfaces': [{'type': 'standard', 'radius': 60.0, 'thickness': 5.0, 'material': ['glass', 'N-BK7', 'schott']},
                      {'type': 'standard', 'radius': -45.0, 'thickness': 6.0, 'material': 'air'},
                      {'type': 'standard', 'radius': inf, 'thickness': 70.0, 'is_stop': True, 'material': 'air'}]},
        {'name': 'chromatic-air-spaced-pair', 'object_thickness': inf, 'aperture': ['EPD', 10.0],
         'field_type': 'angle', 'fields': [[5.0, 0.0, 0.0, 0.0], [0.0, 0.0, 0.0, 0.0], [2.5, 0.0, 0.0, 0.0]],
         'wavelengths': [[0.7, False], [0.4861, False], [0.55, True]], 'telecentric': False,
         'surfaces': [{'type': 'standard', 'radius': 60.0, 'thickness': 5.0, 'material': ['glass', 'N-BK7', 'schott']},
                      {'type': 'standard', 'radius': -60.0, 'thickness': 2.0, 'material': 'air'},
                      {'type': 'standard', 'radius': inf, 'thickness': 2.0, 'is_stop': True, 'material': 'air'},
                      {'type': 'standard', 'radius': -50.0, 'conic': -0.4, 'thickness': 3.0,
                       'material': ['glass', 'F2', 'schott']},
                      {'type': 'standard', 'radius': -90.0, 'thickness': 80.0, 'material': 'air'}]},
    ]
    for s in out:
        s['variant'] = 'chromatic: ' + s['name']
    return out


def _pair_entry(cls, obj, fi, wi, field, w):
    """the part of the stored result of `obj` that belongs to the pair (field number fi, wavelength number wi)"""
    if cls in ('Wavefront', 'OPDFan', 'SpotDiagram'):
        return obj.data[fi][wi]
    if cls == 'RmsWavefrontErrorVsField':
        return {'rms': obj._wavefront_error[:, wi], 'data': [row[wi] for row in obj.data]}
    if cls in ('RayFan', 'PupilAberration'):
        return obj.data[f'{field}'][f'{w}']
    if cls in ('Distortion', 'FieldCurvature'):
        return obj.data[wi]
    if cls in ('GeometricMTF', 'FFTMTF'):
        return obj.mtf[fi]
    if cls == 'EncircledEnergy':
        return obj.data[fi]
    raise KeyError(cls)


def _flat(v, out=None):
    out = [] if out is None else out
    if isinstance(v, dict):
        for k in sorted(v, key=str):
            _flat(v[k], out)
    elif isinstance(v, (list, tuple)):
        for x in v:
            _flat(x, out)
    elif v is not None:
        out.append(np.ravel(np.asarray(v, dtype=float)))
    return out


def _max_abs_difference(a, b):
    """largest |a - b| over all numbers of two stored entries (None when the shapes differ)"""
    try:
        fa, fb = np.concatenate(_flat(a)), np.concatenate(_flat(b))
        if fa.shape != fb.shape:
            return None
        with np.errstate(all='ignore'):
            d = np.abs(fa - fb)
        return float(np.nanmax(d)) if np.isfinite(d).any() else None
    except Exception:   # noqa
        return None


# class -> (axes of the request that are lists, constructor)
def _make_request(cls, optic, fields, ws, primary):
    import optiland.analysis as A
    from optiland import mtf as Mt
    from optiland import wavefront as W
    if cls == 'Wavefront':
        return W.Wavefront(optic, fields, ws, 4, 'hexapolar')
    if cls == 'OPDFan':
        return W.OPDFan(optic, fields, ws, 9)
    if cls == 'RmsWavefrontErrorVsField':
        return A.RmsWavefrontErrorVsField(optic, 3, ws, 3)
    if cls == 'SpotDiagram':
        return A.SpotDiagram(optic, fields, ws, 3, 'hexapolar')
    if cls == 'RayFan':
        return A.RayFan(optic, fields, ws, 9)
    if cls == 'PupilAberration':
        return A.PupilAberration(optic, fields, ws, 7)
    if cls == 'Distortion':
        return A.Distortion(optic, ws, 7)
    if cls == 'FieldCurvature':
        return A.FieldCurvature(optic, ws, 5)
    if cls == 'GeometricMTF':
        return Mt.GeometricMTF(optic, fields, primary, 9, 'uniform', 8)
    if cls == 'FFTMTF':
        return Mt.FFTMTF(optic, fields, primary, 16, 32)
    if cls == 'EncircledEnergy':
        return A.EncircledEnergy(optic, fields, primary, 3, 'hexapolar', 8)
    raise KeyError(cls)


REQUEST_CLASSES = {
    # class: (takes a list of fields, takes a list of wavelengths, entry is relative to a reference wavelength)
    'Wavefront': (True, True, False), 'OPDFan': (True, True, False), 'RmsWavefrontErrorVsField': (False, True, False),
    'SpotDiagram': (True, True, False), 'RayFan': (True, True, True), 'PupilAberration': (True, True, False),
    'Distortion': (False, True, False), 'FieldCurvature': (False, True, False),
    'GeometricMTF': (True, False, False), 'FFTMTF': (True, False, False), 'EncircledEnergy': (True, False, False),
}


def request_fields_wavelengths(rng, spec):
    """the (field, wavelength) lists a multi-item request is made of: the lens' own fields (normalised; the order
    of the spec, which need not be ascending) plus one skew field, the lens' own wavelengths plus two more lines"""
    maxf = max(math.hypot(f[0], f[1]) for f in spec['fields'])
    fields = []
    for f in spec['fields']:
        fields.append((f[1] / maxf if maxf else 0.0, f[0] / maxf if maxf else 0.0))
    if maxf:
        fields.append((round(rng.uniform(0.2, 0.6), 3), round(rng.uniform(0.3, 0.7), 3)))
    own = [w for w, _ in spec['wavelengths']]
    ws = list(own)
    for w in (0.6563, 0.4861, 0.5876, 0.45):
        if len(ws) >= max(3, len(own)):
            break
        if all(abs(w - v) > 1e-3 for v in ws):
            ws.append(w)
    primary = [w for w, p in spec['wavelengths'] if p][0]
    return fields, ws, primary


def request_decomposition(rng, spec, build_fn, classes=None):
    """For every analysis class that takes a list of fields and/or wavelengths: ONE lens object serves the request
    for all pairs, in the given order and in a second order (reversed / rotated lists); a fresh lens serves the
    request for each pair ALONE.  The stored entry of every pair must be bit-identical in all of them.
    Returns (violations, stats)."""
    import copy
    fields, ws, primary = request_fields_wavelengths(rng, spec)
    orders_f = [fields, fields[::-1]]
    orders_w = [ws, ws[1:] + ws[:1], ws[::-1]]
    viol = []
    stats = {'classes': {}, 'pairs_compared': 0, 'raised': 0, 'requests': 0, 'fields': len(fields),
             'wavelengths': len(ws), 'off_axis_pairs_not_first_in_request': 0}
    shared = build_fn(spec)

    def make(optic, cls, fl, wl):
        with warnings.catch_warnings():
            warnings.simplefilter('ignore')
            old = np.seterr(all='ignore')
            try:
                stats['requests'] += 1
                return _make_request(cls, optic, fl, wl, primary)
            except Exception as e:   # noqa
                stats['raised'] += 1
                return None
            finally:
                np.seterr(**old)

    for cls in (classes or list(REQUEST_CLASSES)):
        by_f, by_w, relative = REQUEST_CLASSES[cls]
        fl0 = fields if by_f else [None]
        wl0 = ws if by_w else [primary]
        # the pair alone (for results that are stated relative to the reference wavelength: the pair and the
        # reference), each on a lens that has not been used for anything else
        alone = {}
        for fi, f in enumerate(fl0):
            for w in wl0:
                sub_w = [w] if not relative or w == primary else [primary, w]
                sub_w = sub_w if primary in ws or not relative else None
                if sub_w is None:
                    continue
                obj = make(build_fn(spec), cls, [f] if by_f else fields, sub_w)
                if obj is None:
                    continue
                try:
                    alone[(fi, w)] = copy.deepcopy(_pair_entry(cls, obj, 0, sub_w.index(w), f, w))
                except Exception:   # noqa
                    stats['raised'] += 1
        if not alone:
            continue
        variants = [(orders_f[0], orders_w[0])]
        if by_w and len(ws) > 1:
            variants.append((orders_f[0], orders_w[1]))
        if by_f and len(fields) > 1:
            variants.append((orders_f[1], orders_w[2] if by_w else orders_w[0]))
        for fl, wl in variants:
            req_f = fl if by_f else fields
            req_w = wl if by_w else [primary]
            obj = make(shared, cls, req_f, req_w)
            if obj is None:
                continue
            for (fi0, w), ref in alone.items():
                f = fl0[fi0]
                fi = req_f.index(f) if by_f else 0
                wi = req_w.index(w)
                try:
                    got = _pair_entry(cls, obj, fi, wi, f, w)
                except Exception:   # noqa
                    stats['raised'] += 1
                    continue
                stats['pairs_compared'] += 1
                stats['classes'][cls] = stats['classes'].get(cls, 0) + 1
                if wi > 0 and (f is None or f != (0.0, 0.0)):
                    stats['off_axis_pairs_not_first_in_request'] += 1
                d = first_diff(canon(ref), canon(got))
                if d:
                    viol.append({'kind': 'entry-depends-on-rest-of-request', 'cls': cls,
                                 'max_abs_difference': _max_abs_difference(ref, got),
                                 'op': {'op': 'request', 'cls': cls},
                                 'pair': {'field': f, 'wavelength': w},
                                 'request': {'fields': req_f if by_f else 'fixed by the class', 'wavelengths': req_w},
                                 'position_in_request': {'field': fi, 'wavelength': wi},
                                 'compared_with': 'the same pair requested alone on a fresh lens', 'diff': d,
                                 'spec': spec})
                    break
            if len(viol) > 10:
                return viol, stats
    return viol, stats

"""C15 implementation-side harness (runs in a subprocess with PYTHONPATH=<repo>).

job = {'scenarios': [scenario...], 'tools': path}; out = [result per scenario].
For every scenario the REAL SensitivityAnalysis / MonteCarlo is run with two observers (a logger around
OptimizerGeneric._fun and a snapshot in Tolerancing.evaluate); nothing of optiland is replaced.
The property oracle (`fresh_eval`) re-evaluates each recorded row on a freshly built nominal lens using only
Variable / CompensatorOptimizer / Operand (not Tolerancing / Perturbation / the analyses)."""
import sys, json, io, contextlib, warnings, math, copy
import numpy as np

warnings.simplefilter('ignore')
np.seterr(all='ignore')
job = json.load(open(sys.argv[1]))
sys.path.insert(0, job['tools'])
import lensgen  # noqa: E402
from optiland.tolerancing.core import Tolerancing  # noqa: E402
from optiland.tolerancing.perturbation import ScalarSampler, RangeSampler, DistributionSampler  # noqa: E402
from optiland.tolerancing.sensitivity_analysis import SensitivityAnalysis  # noqa: E402
from optiland.tolerancing.monte_carlo import MonteCarlo  # noqa: E402
from optiland.tolerancing.compensator import CompensatorOptimizer  # noqa: E402
from optiland.optimization.variable import Variable  # noqa: E402
from optiland.optimization.operand import Operand  # noqa: E402
from optiland.optimization import optimization as optmod  # noqa: E402
from optiland.materials import IdealMaterial  # noqa: E402
from optiland.geometries import Plane, StandardGeometry  # noqa: E402


def quiet():
    return contextlib.redirect_stdout(io.StringIO())


def f(x):
    return float(np.ravel(x)[0])


def build(sc, route='direct'):
    """route: how the SAME prescription reaches an Optic object (lensgen.build_via): 'direct' keyword add_surface calls,
    'handbuilt' ready-made Surface objects, 'reuse' an Optic that held another lens and was reset(), 'roundtrip'
    to_dict -> Optic.from_dict.  The replay / reference lenses are always built 'direct'."""
    import random as _random
    with quiet():
        spec = copy.deepcopy(sc['lens'])               # the geometry keeps the caller's coefficient list
        if route and route != 'direct' and hasattr(lensgen, 'build_via'):
            o = lensgen.build_via(spec, route, _random.Random(sc.get('route_seed', 0)))
        else:
            o = lensgen.build(spec)
        for (src, attr, tgt, scale, off) in sc.get('pickups', []):
            o.pickups.add(src, attr, tgt, scale=scale, offset=off)
        for (ty, idx, h) in sc.get('solves', []):
            o.solves.add(ty, idx, h)
        if sc.get('pickups') or sc.get('solves'):
            o.update()
    return o


RC = [0, 0]      # window (rows, columns) over which 2-D freeform coefficients are compared (set per scenario)


def c2_window(g):
    """coefficients c[a][b] of a polynomial / Chebyshev geometry over the RC window, zero where nothing is stored
    (zero padding of the stored array is not a change of the prescription)"""
    if type(g).__name__ not in ('PolynomialGeometry', 'ChebyshevPolynomialGeometry'):
        return []
    c = np.atleast_2d(np.array(g.c, dtype=float))
    w = np.zeros((RC[0], RC[1]))
    a, b = min(RC[0], c.shape[0]), min(RC[1], c.shape[1])
    w[:a, :b] = c[:a, :b]
    extra = float(np.abs(c[a:, :]).sum() + np.abs(c[:a, b:]).sum())   # non-zero entries outside the window
    return [float(x) for x in w.ravel()] + [extra]


def snapshot(o, WS, glass_ids):
    out = []
    for s in o.surface_group.surfaces:
        g = s.geometry
        cs = g.cs
        name = type(g).__name__
        kind = 0 if name == 'Plane' else (1 if name == 'StandardGeometry' else 2)
        m = s.material_post
        if type(m).__name__ == 'IdealMaterial':
            med = ['ideal', f(m.n(0.55)), f(m.k(0.55))]
        else:
            key = id(m)
            if key not in glass_ids:
                glass_ids[key] = (len(glass_ids), m)
            med = ['glass', glass_ids[key][0]]
        cf = [float(c) for c in g.c] if name == 'EvenAsphere' else []
        out.append({'kind': kind, 'rad': f(getattr(g, 'radius', np.inf)), 'con': f(getattr(g, 'k', 0.0)),
                    'z': f(cs.z), 'dx': f(cs.x), 'dy': f(cs.y), 'rx': f(cs.rx), 'ry': f(cs.ry), 'cf': cf,
                    'med': med, 'nws': [f(m.n(w)) for w in WS], 'c2': c2_window(g)})
    return out


def vec(snap):
    v = []
    for s in snap:
        v += [s['kind'], s['rad'], s['con'], s['z'], s['dx'], s['dy'], s['rx'], s['ry']] + s['cf']
        v += [0.0 if s['med'][0] == 'ideal' else 1.0] + s['nws']
    return v


FIELDS = ['kind', 'rad', 'con', 'z', 'dx', 'dy', 'rx', 'ry']


def close(a, b, tol):
    if a != a or b != b:
        return (a != a) and (b != b)
    if math.isinf(a) or math.isinf(b):
        return a == b
    return abs(a - b) <= tol * (1 + abs(a) + abs(b))


def snap_diff(a, b, tol=1e-9):
    d = []
    for i, (x, y) in enumerate(zip(a, b)):
        for k in FIELDS:
            if not close(x[k], y[k], tol):
                d.append([i, k])
        if len(x['cf']) != len(y['cf']) or any(not close(p, q, tol) for p, q in zip(x['cf'], y['cf'])):
            d.append([i, 'cf'])
        if x['med'][0] != y['med'][0] or any(not close(p, q, tol) for p, q in zip(x['nws'], y['nws'])):
            d.append([i, 'med'])
        if len(x.get('c2', [])) != len(y.get('c2', [])) or any(abs(p - q) > tol * (1e-6 + abs(p) + abs(q))
                                                                for p, q in zip(x.get('c2', []), y.get('c2', []))):
            d.append([i, 'c2'])
    return d


def dict_of(o):
    try:
        return json.loads(json.dumps(o.to_dict(), default=lambda x: float(np.ravel(x)[0])))
    except Exception as e:   # noqa
        return {'__to_dict_error__': type(e).__name__}


def dict_diff(a, b, path='', tol=1e-9, out=None):
    """paths at which two to_dict() trees differ (numbers compared with tolerance)"""
    out = [] if out is None else out
    if len(out) > 20:
        return out
    if isinstance(a, dict) and isinstance(b, dict):
        for k in sorted(set(a) | set(b), key=str):
            if k not in a or k not in b:
                out.append(path + '/' + str(k))
            else:
                dict_diff(a[k], b[k], path + '/' + str(k), tol, out)
    elif isinstance(a, list) and isinstance(b, list):
        if len(a) != len(b):
            out.append(path + '[len]')
        else:
            for i, (x, y) in enumerate(zip(a, b)):
                dict_diff(x, y, f'{path}[{i}]', tol, out)
    elif isinstance(a, (int, float)) and isinstance(b, (int, float)) and not isinstance(a, bool) and not isinstance(b, bool):
        if not close(float(a), float(b), tol):
            out.append(path)
    elif a != b:
        out.append(path)
    return out


def raw_set(o, h, v):
    """write one coordinate through the Optic API only (no Variable objects)"""
    t, kw = h['type'], h['kw']
    i = kw['surface_number']
    if t == 'radius':
        o.set_radius(v, i)
    elif t == 'conic':
        o.set_conic(v, i)
    elif t == 'thickness':
        o.set_thickness(v, i)
    elif t == 'index':
        o.set_index(v, i)
    elif t == 'asphere_coeff':
        o.set_asphere_coeff(v, i, kw['coeff_number'])
    elif t in ('polynomial_coeff', 'chebyshev_coeff'):
        g = o.surface_group.surfaces[i].geometry
        a, b = kw['coeff_index']
        c = np.atleast_2d(np.array(g.c, dtype=float))
        w = np.zeros((max(a + 1, c.shape[0]), max(b + 1, c.shape[1])))
        w[:c.shape[0], :c.shape[1]] = c          # every stored coefficient keeps its (row, column)
        w[a, b] = v
        g.c = w
    elif t == 'tilt':
        setattr(o.surface_group.surfaces[i].geometry.cs, 'r' + kw['axis'], v)
    elif t == 'decenter':
        setattr(o.surface_group.surfaces[i].geometry.cs, kw['axis'], v)
    else:
        raise ValueError(t)


def bounded_reference(sc, which, values, targets):
    """independent compensation: fresh lens, perturbation written through Optic.set_*, one compensator found by a
    bounded scalar minimisation (scipy minimize_scalar) of sum (operand - target)^2 inside the DECLARED limits.
    Uses neither Variable (so not Variable.bounds / scaling) nor the optimisation / tolerancing classes."""
    from scipy.optimize import minimize_scalar
    o = build(sc)
    ops = add_operands(None, sc, o, targets)
    c = sc['comps'][0]
    b = c.get('bounds', {})
    lo, hi = sc['ref_search']
    if b.get('min_val') is not None:
        lo = b['min_val']
    if b.get('max_val') is not None:
        hi = b['max_val']
    with quiet():
        for j, v in zip(which, values):
            raw_set(o, sc['perts'][j], v)

        def merit(x):
            raw_set(o, c, float(x))
            o.update()
            return float(sum((f(op.value) - tg) ** 2 for op, tg in zip(ops, targets)))

        r = minimize_scalar(merit, bounds=(lo, hi), method='bounded', options={'xatol': 1e-9})
        m = merit(r.x)
        return {'x': float(r.x), 'merit': m, 'ops': [f(op.value) for op in ops], 'lo': lo, 'hi': hi}


def presc(o, sc):
    """is the object the prescription that was entered (independent running sums / entered media / radii / conics)?
    Lenses with solves have a solved image distance that is not in the entered prescription: skipped."""
    if sc.get('solves') or not hasattr(lensgen, 'prescription_problems'):
        return []
    if sc.get('pickups') and not sc.get('dependent'):
        return []       # random pickups overrule the entered radius (only the 'dependent' classes enter consistent ones)
    try:
        return lensgen.prescription_problems(sc['lens'], o)
    except Exception as e:   # noqa
        return [{'kind': 'prescription', 'quantity': 'oracle raised ' + type(e).__name__}]


def sag_deviation(o, sc):
    """max |sag(optiland geometry) - sag(prescribed coefficients of the scenario)| over sample points, for every
    freeform / aspheric surface (independent evaluation: tools/oracles.py)"""
    import oracles
    worst = 0.0
    pts = [(0.0, 0.0), (1.3, -0.7), (-2.1, 1.9), (2.6, 2.2), (-1.1, -2.9), (3.0, 0.4)]
    for i, sp in enumerate(sc['lens']['surfaces']):
        ty = sp.get('type', 'standard')
        if ty not in ('polynomial', 'chebyshev', 'even_asphere'):
            continue
        R, k = sp['radius'], sp.get('conic', 0.0)
        if ty == 'polynomial':
            sh = ('poly', R, k, sp['coefficients'], 0, 0)
        elif ty == 'chebyshev':
            sh = ('cheb', R, k, sp['coefficients'], 0, 0, sp['norm_x'], sp['norm_y'])
        else:
            sh = ('even', R, k, sp['coefficients'])
        g = o.surface_group.surfaces[i + 1].geometry
        for (x, y) in pts:
            z0 = oracles.sag_and_grad(sh, x, y)[0]
            z1 = f(g.sag(np.array([x]), np.array([y])))
            if z0 != z0 or z1 != z1:
                if (z0 != z0) != (z1 != z1):
                    worst = float('inf')
                continue
            worst = max(worst, abs(z0 - z1))
    return worst


def ray_operands(o, sc):
    """operand values recomputed from the traced rays (public Optic.trace / trace_generic) for the ray operands:
    rms_spot_size = root mean square distance of ALL image points (every requested wavelength) from the centroid of the
    primary wavelength, undefined (NaN) as soon as one ray has no image point; real_x/y_intercept = the traced point.
    None for operands that are not ray operands."""
    out = []
    with quiet():
        for ty, kw in sc['operands']:
            try:
                if ty == 'rms_spot_size':
                    ws = [float(w) for w in o.wavelengths.get_wavelengths()] if kw['wavelength'] == 'all' else [kw['wavelength']]
                    prim = o.primary_wavelength if kw['wavelength'] == 'all' else kw['wavelength']
                    pts = {}
                    for w in ws:
                        o.trace(kw['Hx'], kw['Hy'], w, kw['num_rays'], kw['distribution'])
                        sg = o.surface_group
                        pts[w] = (np.array(sg.x[kw['surface_number'], :], dtype=float).ravel().copy(),
                                  np.array(sg.y[kw['surface_number'], :], dtype=float).ravel().copy())
                    allx = np.concatenate([pts[w][0] for w in ws])
                    ally = np.concatenate([pts[w][1] for w in ws])
                    nfail = int(np.sum(~np.isfinite(allx) | ~np.isfinite(ally)))
                    if nfail:
                        out.append({'v': float('nan'), 'failed': nfail, 'rays': int(allx.size)})
                        continue
                    cx, cy = float(np.sum(pts[prim][0]) / pts[prim][0].size), float(np.sum(pts[prim][1]) / pts[prim][1].size)
                    out.append({'v': float(math.sqrt(float(np.sum((allx - cx) ** 2 + (ally - cy) ** 2)) / allx.size)),
                                'failed': 0, 'rays': int(allx.size)})
                elif ty in ('real_x_intercept', 'real_y_intercept'):
                    o.trace_generic(kw['Hx'], kw['Hy'], kw['Px'], kw['Py'], kw['wavelength'])
                    sg = o.surface_group
                    arr = sg.x if ty == 'real_x_intercept' else sg.y
                    v = f(arr[kw['surface_number'], 0])
                    out.append({'v': v, 'failed': int(v != v), 'rays': 1})
                else:
                    out.append(None)
            except Exception as e:   # noqa
                out.append({'error': type(e).__name__})
    return out


def mk_sampler(sp):
    k = sp[0]
    if k == 'scalar':
        return ScalarSampler(sp[1])
    if k == 'range':
        return RangeSampler(sp[1], sp[2], sp[3])
    if k == 'normal':
        return DistributionSampler('normal', seed=sp[3], loc=sp[1], scale=sp[2])
    if k == 'uniform':
        return DistributionSampler('uniform', seed=sp[3], low=sp[1], high=sp[2])
    raise ValueError(k)


def add_operands(t_or_list, sc, o, targets=None, first=0, upto=None):
    """operands first..upto-1 of the scenario (all by default): registered on a Tolerancing, or built as Operand objects"""
    ops = []
    for i, (ty, kw) in list(enumerate(sc['operands']))[first:upto]:
        kw = dict(kw)
        kw['optic'] = o
        if targets is None:
            t_or_list.add_operand(ty, kw)
        else:
            ops.append(Operand(ty, targets[i], 1.0, kw))
    return ops


def setup(sc, info=None):
    RC[0], RC[1] = sc.get('c2shape', [0, 0])
    o = build(sc, sc.get('route', 'direct'))
    t = Tolerancing(o, method=sc.get('method', 'generic'), tol=sc.get('tol', 1e-5))
    add_operands(t, sc, o, upto=sc.get('ops_initial'))      # operand-edit histories register the others later
    if info is not None:
        # the nominal lens: before any perturbation / compensator is registered
        info['glass'] = {}
        info['built'] = snapshot(o, sc['WS'], info['glass'])
        info['ops_built'] = [f(v) for v in t.evaluate()]
        info['sag_built'] = sag_deviation(o, sc)
        info['presc_built'] = presc(o, sc)
        info['optic'] = o
    samplers = [mk_sampler(p['sampler']) for p in sc['perts']]
    for (a, b) in sc.get('share', []):
        samplers[b] = samplers[a]          # ONE sampler object used by two perturbations
    for p, sm in zip(sc['perts'], samplers):
        t.add_perturbation(p['type'], sm, **p['kw'])
    for c in sc['comps']:
        t.add_compensator(c['type'], **c['kw'], **c.get('bounds', {}))
    return o, t


def history_of(sc):
    """steps executed on ONE Tolerancing object: ['mc', n] | ['sens'] | ['advance', j, k] (sampler j sampled k times by hand)
    | ['addop', n] (further operands registered: the first n of the scenario are active from here on)
    | ['compensate'] (a manual apply_compensators() on the nominal lens followed by reset())"""
    return sc.get('history') or [[sc['analysis'], sc['trials']] if sc['analysis'] == 'mc' else ['sens']]


def step_which(sc, step):
    if step[0] == 'mc':
        return [list(range(len(sc['perts']))) for _ in range(step[1])]
    if step[0] == 'sens':
        out = []
        for j, p in enumerate(sc['perts']):
            n = p['sampler'][3] if p['sampler'][0] == 'range' else 1
            out += [[j]] * n
        return out
    return []


def plan_which(sc):
    out = []
    for st in history_of(sc):
        out += step_which(sc, st)
    return out


def run_analysis(sc, observe=True):
    """returns dict with everything observed on the real implementation"""
    res = {}
    info = {}
    try:
        o, t = setup(sc, info)
    except Exception as e:   # noqa
        if sc.get('expect_setup_error') and 'optic' in info:
            # registering the perturbation raised: the lens must be untouched
            o = info['optic']
            res['setup_error'] = type(e).__name__
            res['setup_error_diff'] = snap_diff(info['built'], snapshot(o, sc['WS'], info['glass']))
            res['sag_after_setup'] = sag_deviation(o, sc)
            return res
        raise
    WS = sc['WS']
    gl = info['glass']
    res['nominal'] = info['built']
    res['ops_built'] = info['ops_built']
    res['sag_built'] = info['sag_built']
    res['presc_built'] = info['presc_built']
    res['after_setup'] = snapshot(o, WS, gl)
    res['setup_diff'] = snap_diff(res['nominal'], res['after_setup'])
    res['sag_after_setup'] = sag_deviation(o, sc)
    d_nom = dict_of(o)
    res['ops_nominal'] = [f(v) for v in t.evaluate()]
    res['targets'] = [f(op.target) for op in t.operands]
    res['pert_init'] = [f(p.variable.initial_value) for p in t.perturbations]
    res['comp_init'] = [f(v.initial_value) for v in t.compensator.variables]
    res['pert_names'] = [str(p.variable) for p in t.perturbations]
    trials = []
    cur = {'trace': []}
    orig_fun = optmod.OptimizerGeneric._fun

    def logged_fun(self, x):
        cur['trace'].append([float(v) for v in np.ravel(x)])
        return orig_fun(self, x)

    orig_eval = t.evaluate

    def logged_eval():
        vals = orig_eval()
        trials.append({'trace': cur['trace'], 'snap': snapshot(o, WS, gl), 'ops': [f(v) for v in vals],
                       'applied': [None if p.value is None else f(p.value) for p in t.perturbations]})
        cur['trace'] = []
        return vals

    # the optimisers of the repaired tree (C14 fix) set the returned solution explicitly after scipy returns:
    # same effect on the lens as one more objective evaluation (update every variable, Optic.update())
    orig_apply = getattr(optmod.OptimizerGeneric, '_apply_solution', None)

    def logged_apply(self, x):
        cur['trace'].append([float(v) for v in np.ravel(x)])
        return orig_apply(self, x)

    optmod.OptimizerGeneric._fun = logged_fun
    if orig_apply is not None:
        optmod.OptimizerGeneric._apply_solution = logged_apply
    t.evaluate = logged_eval
    steps = []
    table = []
    nrows = 0
    nops = sc.get('ops_initial', len(sc['operands']))      # operands active at the current step (from the PLAN)
    try:
        for st in history_of(sc):
            if st[0] == 'addop':
                add_operands(t, sc, o, first=nops, upto=st[1])
                nops = st[1]
                steps.append({'kind': 'addop', 'n': 0})
                continue
            if st[0] == 'compensate':
                with quiet():
                    t.apply_compensators()
                    t.reset()
                cur['trace'] = []
                steps.append({'kind': 'compensate', 'n': 0, 'diff': snap_diff(res['nominal'], snapshot(o, WS, gl))})
                continue
            if st[0] == 'advance':
                for _ in range(st[2]):
                    t.perturbations[st[1]].sampler.sample()
                steps.append({'kind': 'advance', 'n': 0})
                continue
            first = len(trials)
            with quiet():
                if st[0] == 'mc':
                    an = MonteCarlo(t)
                    an.run(st[1])
                else:
                    an = SensitivityAnalysis(t)
                    an.run()
            after = snapshot(o, WS, gl)
            df = an.get_results()
            which = step_which(sc, st)
            names = an.operand_names
            for i, tr in enumerate(trials[first:]):
                if i >= len(df):
                    break
                row = df.iloc[i]
                tr['step'] = len(steps)
                tr['nops'] = nops
                tr['which'] = which[i] if i < len(which) else []
                if st[0] == 'mc':
                    tr['values'] = [f(row[res['pert_names'][j]]) for j in tr['which']]
                else:
                    tr['values'] = [f(row['perturbation_value'])]
                    tr['type_ok'] = (row['perturbation_type'] == res['pert_names'][tr['which'][0]]) if tr['which'] else False
                tr['row_ops'] = [f(row[n]) for n in names]
                tr['comp'] = [f(row[c]) for c in df.columns if str(c).startswith('C') and ': ' in str(c)
                              and str(c).split(':')[0][1:].isdigit()]
            nrows += int(len(df))
            table += [[None if (isinstance(v, float) and v != v) else (v if isinstance(v, str) else f(v))
                       for v in df.iloc[i].tolist()] for i in range(len(df))]
            steps.append({'kind': st[0], 'n': len(trials) - first, 'after_run': after,
                          'diff_run': snap_diff(res['nominal'], after),
                          'dict_diff_run': dict_diff(d_nom, dict_of(o))})
    finally:
        optmod.OptimizerGeneric._fun = orig_fun
        if orig_apply is not None:
            optmod.OptimizerGeneric._apply_solution = orig_apply
    res['steps'] = steps
    res['after_run'] = snapshot(o, WS, gl)
    res['sag_after_run'] = sag_deviation(o, sc)
    res['presc_after_run'] = presc(o, sc)
    res['dict_diff_run'] = [x for stp in steps for x in stp.get('dict_diff_run', [])]
    res['diff_run_steps'] = [x for stp in steps for x in stp.get('diff_run', []) + stp.get('diff', [])]
    with quiet():
        t.reset()
    res['after_reset'] = snapshot(o, WS, gl)
    res['sag_after_reset'] = sag_deviation(o, sc)
    res['presc_after_reset'] = presc(o, sc)
    res['dict_diff_reset'] = dict_diff(d_nom, dict_of(o))
    res['to_dict_ok'] = '__to_dict_error__' not in d_nom
    for tr in trials:
        tr.setdefault('which', [])
        tr.setdefault('values', [])
        tr.setdefault('row_ops', [])
        tr.setdefault('comp', [])
        tr.setdefault('step', -1)
    res['trials'] = trials
    res['nrows'] = nrows
    res['table'] = table
    res['glass'] = {str(gid): [f(m.n(w)) for w in WS] for (gid, m) in gl.values()}
    res['nglass'] = len(gl)
    return res


def pre_apply(o, sc, variant):
    """the effect of a listed finding applied to the fresh nominal lens (used only to ATTRIBUTE a mismatch)"""
    if 'd23' in variant:
        for h in sc['perts'] + sc['comps']:
            if h['type'] == 'index':
                s = o.surface_group.surfaces[h['kw']['surface_number']]
                if type(s.material_post).__name__ != 'IdealMaterial':
                    o.set_index(f(s.material_post.n(h['kw']['wavelength'])), h['kw']['surface_number'])
    if 'plane' in variant:
        for h in sc['perts'] + sc['comps']:
            if h['type'] == 'radius':
                s = o.surface_group.surfaces[h['kw']['surface_number']]
                if isinstance(s.geometry, Plane):
                    o.set_radius(np.inf, h['kw']['surface_number'])


def nominal_targets(sc):
    """value of every operand of the scenario on a freshly built nominal lens (the default target of add_operand)"""
    o = build(sc)
    with quiet():
        return [f(op.value) for op in add_operands(None, sc, o, [0.0] * len(sc['operands']))]


def fresh_eval(sc, which, values, targets, variant=(), nops=None):
    o = build(sc)
    pre_apply(o, sc, variant)
    ops = add_operands(None, sc, o, targets, upto=nops)
    with quiet():
        for j, v in zip(which, values):
            if 'intcoef' in variant and sc['perts'][j]['type'] in ('polynomial_coeff', 'chebyshev_coeff'):
                v = float(int(v))                # what an integer coefficient array keeps of the written value
            raw_set(o, sc['perts'][j], v)        # Optic.set_* / direct writes: no Variable object for the perturbations
        if sc['comps']:
            co = CompensatorOptimizer(method=sc.get('method', 'generic'), tol=sc.get('tol', 1e-5))
            for c in sc['comps']:
                co.add_variable(o, c['type'], **c['kw'], **c.get('bounds', {}))
            co.operands = ops
            co.run()
        vals = [f(op.value) for op in ops]
    LAST['ray_ops'] = ray_operands(o, sc) if not variant else None
    return vals, snapshot(o, sc['WS'], {})


LAST = {}


def independent_stream(sc):
    """the draws a seeded run must see: RandomState(last seed) consumed in plan order"""
    seed = None
    for p in sc['perts']:
        if p['sampler'][0] in ('normal', 'uniform') and p['sampler'][3] is not None:
            seed = p['sampler'][3]
    if seed is None:
        return None
    rs = np.random.RandomState(seed)
    out = []
    for which in plan_which(sc):
        for j in which:
            sp = sc['perts'][j]['sampler']
            if sp[0] == 'normal':
                out.append(float(rs.normal(loc=sp[1], scale=sp[2])))
            elif sp[0] == 'uniform':
                out.append(float(rs.uniform(low=sp[1], high=sp[2])))
    return out


def tables_equal(a, b):
    if len(a) != len(b):
        return False
    for r1, r2 in zip(a, b):
        if len(r1) != len(r2):
            return False
        for x, y in zip(r1, r2):
            if x != y:
                return False
    return True


out = []
for sc in job['scenarios']:
    r = {'name': sc.get('name')}
    try:
        res = run_analysis(sc)
        r.update(res)
        if 'setup_error' in res:
            out.append(r)
            continue
        tol = 1e-6 if sc['comps'] else 1e-9
        orc = []
        edit = 'ops_initial' in sc
        if edit:
            # operand-edit history: every row is replayed with the operands ACTIVE AT THAT STEP OF THE PLAN, targets = their
            # values on a freshly built nominal lens (nothing read from the Tolerancing under test)
            res['targets'] = r['targets'] = nominal_targets(sc)
        for tr in res['trials']:
            if sc.get('skip_oracle'):
                break
            fr, fsnap = fresh_eval(sc, tr['which'], tr['values'], res['targets'], nops=tr.get('nops') if edit else None)
            ok = all(close(a, b, tol) for a, b in zip(fr, tr['row_ops'])) and len(fr) == len(tr['row_ops'])
            resolved = False
            if ok and not sc['comps']:
                # tiny perturbations: the recorded value must follow the replayed one to within 2% of the EFFECT of the
                # perturbation on that operand, whenever that effect is far above rounding (1e4 ulp)
                for a, b, n0 in zip(fr, tr['row_ops'], res['ops_built']):
                    if a != a or b != b or n0 != n0 or math.isinf(a) or math.isinf(n0):
                        continue
                    eff = abs(a - n0)
                    if eff > 2.2e-12 * (1e-3 + abs(a)):
                        resolved = True
                        if abs(a - b) > 0.02 * eff:
                            ok = False
            # where the lens at evaluation differs from the freshly built one (attribution of state-level mismatches)
            e = {'fresh': fr, 'ok': ok, 'resolved': resolved, 'ray_ops': LAST.get('ray_ops'), 'state_diff': snap_diff(fsnap, tr['snap'], 1e-6 if sc['comps'] else 1e-9),
                 'nominal_diff': snap_diff(res['nominal'], tr['snap'])}
            if edit and tr.get('nops', 0) > sc['ops_initial']:
                # non-triviality: does the operand added later move the compensated optimum of this row?
                f0, fsnap0 = fresh_eval(sc, tr['which'], tr['values'], res['targets'], nops=sc['ops_initial'])
                e['edit_matters'] = bool(snap_diff(fsnap0, fsnap, 1e-5))
                e['fresh_initial_ops'] = f0
            if not ok:
                e['explained'] = None
                for variant in (('d23',), ('plane',), ('d23', 'plane'), ('intcoef',)):
                    try:
                        fv, _ = fresh_eval(sc, tr['which'], tr['values'], res['targets'], variant)
                    except Exception:
                        continue
                    if all(close(a, b, tol) for a, b in zip(fv, tr['row_ops'])):
                        e['explained'] = list(variant)
                        break
            orc.append(e)
        r['oracle'] = orc
        if sc.get('bounded_ref'):
            r['bref'] = [bounded_reference(sc, tr['which'], tr['values'], res['targets']) for tr in res['trials']]
        r['diff_run'] = snap_diff(res['nominal'], res['after_run'])
        for x in res.get('diff_run_steps', []):
            if x not in r['diff_run']:
                r['diff_run'].append(x)
        r['diff_reset'] = snap_diff(res['nominal'], res['after_reset'])
        r['stream'] = independent_stream(sc)
        if sc.get('check_repro'):
            res2 = run_analysis(sc)
            r['repro'] = tables_equal(res['table'], res2['table'])
            np.random.seed(987654321)     # a different prior state of the global stream
            np.random.normal(size=7)
            res3 = run_analysis(sc)
            r['repro2'] = tables_equal(res['table'], res3['table'])
    except Exception as e:   # noqa
        import traceback
        r['error'] = type(e).__name__ + ': ' + str(e)[:200]
        r['tb'] = traceback.format_exc()[-1200:]
    out.append(r)
json.dump(out, open(sys.argv[2], 'w'))

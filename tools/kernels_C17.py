"""Kernels of property C17 (Fresnel energy conservation, polarization algebra).

All Jones*.calculate_matrix methods are translated with the complex extension
(tools/py2coq_cx.py: kinds cx / mat3 over coq/Num/Cx.v); the result is the per-ray 3x3 complex
matrix, flattened row-major with (re, im) interleaved.  BaseCoating._compute_aoi is plain real code.
"""
from py2coq_cx import CxKernel

JN = 'optiland/jones.py'
CO = 'optiland/coatings.py'


def _j(name, cls, **kw):
    d = dict(name=name, file=JN, cls=cls, func='calculate_matrix', kclass=CxKernel,
             types={'rays': 'obj', 'reflect': 'bool'})
    d.update(kw)
    return d


MODULES = {
    'Jones': [
        _j('jones_fresnel', 'JonesFresnel',
           opaque_calls={'self.material_pre.n': 'num', 'self.material_post.n': 'num'}),
        _j('jones_pol_h', 'JonesPolarizerH'),
        _j('jones_pol_v', 'JonesPolarizerV'),
        _j('jones_pol_l45', 'JonesPolarizerL45'),
        _j('jones_pol_l135', 'JonesPolarizerL135'),
        _j('jones_pol_rcp', 'JonesPolarizerRCP'),
        _j('jones_pol_lcp', 'JonesPolarizerLCP'),
        _j('jones_diattenuator', 'JonesLinearDiattenuator'),
        _j('jones_retarder', 'JonesLinearRetarder'),
        dict(name='compute_aoi', file=CO, cls='BaseCoating', func='_compute_aoi', types={'rays': 'obj'}),
    ],
}
MODULE_DEPS = {}
